#!/usr/bin/env python3
"""tools/mkwave.py <wave letter-or-number> [Cxx ...] : prepare a wave of independently seeded changes.

For each property (all, or the ones listed): a detached scratch worktree of /repo at /tmp/seed<W>_<id> and a prompt at
/tmp/seed<W>_out/<id>/prompt.txt built from tools/seed_prompt_template.txt, the property's text (properties.jsonl) and the
mechanisms already taken (the `breaks` lines of seeded/<id>*/meta.json).  The prompt gives the agent nothing from /verif.
Each prompt is handed to a fresh sub-agent; its output (patch.diff, demo.py, notes.md) is then confirmed and recorded with
tools/seeded.py, and the worktree removed (git -C /repo worktree remove --force ...).
"""
import glob
import json
import os
import subprocess
import sys

ROOT = os.path.dirname(os.path.dirname(os.path.abspath(__file__)))
W = sys.argv[1]
ONLY = set(sys.argv[2:])
tmpl = open(os.path.join(ROOT, 'tools', 'seed_prompt_template.txt')).read()
IDEAS = ('Look where nobody has looked yet: an interaction that only the combination of two or three features reaches (a variant + a '
         'forced-bet layout + an earlier action; a chip type + a split; several boards + a side pot; an automation subset + an all-in; '
         'an explicit-argument call + a later default call), state that is stale only after a specific earlier step, a value computed '
         'at one site and consumed at another that disagree only in a corner, objects reused across calls, identity vs equality, falsy '
         'indices, aliasing of caller containers, rarely non-default parameters, behaviour after the hand is over. It must look like an '
         'honest refactor. Avoid anything that an end-to-end replay of a typical hand of any single variant would expose, and avoid '
         'plain argument-validation slips.')
for line in open(os.path.join(ROOT, 'properties.jsonl')):
    p = json.loads(line)
    pid = p['id']
    if ONLY and pid not in ONLY:
        continue
    prior = []
    for f in sorted(glob.glob(os.path.join(ROOT, 'seeded', pid + '*', 'meta.json'))):
        b = json.load(open(f)).get('breaks')
        if b:
            prior.append(b.split(': ', 1)[-1])
    wt, out = f'/tmp/seed{W}_{pid}', f'/tmp/seed{W}_out/{pid}'
    os.makedirs(out, exist_ok=True)
    if not os.path.exists(wt):
        subprocess.run(['git', '-C', '/repo', 'worktree', 'add', '--detach', wt, 'HEAD'], check=True, capture_output=True)
    q = p['quantifier']
    a = p.get('anchors') or {}
    prop = (f"## The property you must break\n\nTitle: {p['title']}\n\nStatement: {p['statement']}\n\n"
            f"Quantifier: {q.get('text') if isinstance(q, dict) else q}\n\n"
            f"Code anchors (where the behaviour lives): {json.dumps(a.get('mechanism') or a.get('state') or [])} "
            f"files: {json.dumps(a.get('files', []))}")
    taken = ('## Already taken — choose something different\n\n'
             f'{len(prior)} other contributors have already seeded changes for this property, so yours must use a DIFFERENT mechanism in a '
             'different function and break a different clause / variant / configuration dimension of the statement:\n'
             + ''.join(f'{i + 1}. "{b}"\n' for i, b in enumerate(prior)) + IDEAS) if prior else IDEAS
    text = tmpl.replace('@PROPERTY@', prop).replace('@TAKEN@', taken).replace('@WT@', wt).replace('@OUT@', out)
    open(os.path.join(out, 'prompt.txt'), 'w').write(text)
    print(pid, wt, out)
