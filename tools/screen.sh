#!/bin/bash
# tools/screen.sh <patch.diff> : does the pinned test suite still pass with the patch? (scratch copy in /dev/shm, removed afterwards)
set -u
patch=$(realpath "$1")
d=$(mktemp -d /dev/shm/pkmc-scr-XXXXXX)
cp -r /repo/pokerkit "$d/pokerkit"; cp /repo/setup.py /repo/README.rst "$d/" 2>/dev/null
find "$d" -name __pycache__ -prune -exec rm -rf {} +
( cd "$d" && patch -p1 -s < "$patch" ) || { echo "patch failed"; rm -rf "$d"; exit 3; }
( cd "$d" && /venv/bin/python -m pytest -q -p no:cacheprovider -n ${N:-14} --timeout=900 -x 2>&1 | tail -3 )
rc=${PIPESTATUS[0]}
rm -rf "$d"
