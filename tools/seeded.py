#!/usr/bin/env python3
"""tools/seeded.py <name> <src dir with patch.diff demo.py notes.md> <property> [check ids...]

Confirm an independently written seeded change and record it under seeded/<name>/:
  1. the patch applies to a scratch copy of /repo (in /dev/shm, removed afterwards);
  2. the pinned test suite still passes on the copy;
  3. the demonstration fails (exit 1) on the copy and passes (exit 0) on /repo;
  4. the listed checks (default: the property's own) are run against the copy (quick tier) and the verdicts recorded.
"""
import json, os, shutil, subprocess, sys, tempfile, time
ROOT = os.path.dirname(os.path.dirname(os.path.abspath(__file__)))
name, src, prop = sys.argv[1:4]
checks = sys.argv[4:] or [prop]
tier = os.environ.get('TIER', 'quick')
d = tempfile.mkdtemp(prefix='pkmc-seed-', dir='/dev/shm')
meta = {'name': name, 'property': prop, 'ran': []}
try:
    shutil.copytree('/repo/pokerkit', d + '/pokerkit', ignore=shutil.ignore_patterns('__pycache__'))
    r = subprocess.run(['patch', '-p1', '-s', '-i', os.path.join(src, 'patch.diff')], cwd=d, capture_output=True, text=True)
    meta['patch_applies'] = r.returncode == 0
    if r.returncode:
        print('patch failed', r.stdout, r.stderr); sys.exit(3)
    if not os.environ.get('SKIP_TESTS'):
        t = subprocess.run(['/venv/bin/python', '-m', 'pytest', '-q', '-p', 'no:cacheprovider', '-n', os.environ.get('N', '12'), '--timeout=900'],
                           cwd=d, capture_output=True, text=True)
        tail = [l for l in t.stdout.strip().splitlines() if 'passed' in l or 'failed' in l][-1:]
        meta['test_suite'] = tail[0] if tail else t.stdout[-200:]
        meta['ran'].append('cd <copy> && /venv/bin/python -m pytest -q -p no:cacheprovider -n 12 --timeout=900')
        print('tests:', meta['test_suite'])
    env = dict(os.environ, PYTHONPATH=d)
    a = subprocess.run(['/venv/bin/python', '-B', os.path.join(src, 'demo.py')], env=env, capture_output=True, text=True, cwd='/tmp')
    b = subprocess.run(['/venv/bin/python', '-B', os.path.join(src, 'demo.py')], env=dict(os.environ, PYTHONPATH='/repo'), capture_output=True, text=True, cwd='/tmp')
    meta['demo_exit_changed_tree'] = a.returncode
    meta['demo_exit_unchanged_tree'] = b.returncode
    meta['demo_output_changed_tree'] = (a.stdout + a.stderr)[-600:]
    meta['ran'].append('PYTHONPATH=<copy> /venv/bin/python demo.py ; PYTHONPATH=/repo /venv/bin/python demo.py')
    print('demo: changed', a.returncode, 'unchanged', b.returncode)
    meta['checks'] = {}
    for c in checks:
        t0 = time.time()
        r = subprocess.run([os.path.join(ROOT, 'check'), c, '--tier', tier], env=dict(os.environ, PKMC_REPO=d, PKMC_OUT=d + '/out'),
                           capture_output=True, text=True)
        lines = [l for l in r.stdout.splitlines() if l.startswith(('VIOLATION', '  oracle', c + ' tier'))]
        meta['checks'][c] = {'exit': r.returncode, 'tier': tier, 'first_report': [l[:400].replace(d, '<copy>') for l in lines[:2]],
                             'summary': lines[-1][:300] if lines else r.stdout[-300:], 'wall_s': round(time.time() - t0, 1)}
        meta['ran'].append(f'PKMC_REPO=<copy> ./check {c} --tier {tier}')
        print(c, 'exit', r.returncode, '|', (lines[1] if len(lines) > 1 else '')[:300])
finally:
    shutil.rmtree(d, ignore_errors=True)
out = os.path.join(ROOT, 'seeded', name)
os.makedirs(out, exist_ok=True)
for f in ('patch.diff', 'demo.py', 'notes.md'):
    if os.path.exists(os.path.join(src, f)) and os.path.realpath(os.path.join(src, f)) != os.path.realpath(os.path.join(out, f)):
        shutil.copy(os.path.join(src, f), os.path.join(out, f))
old = {}
if os.path.exists(os.path.join(out, 'meta.json')):
    old = json.load(open(os.path.join(out, 'meta.json')))
    for k in ('needs', 'breaks', 'source', 'history'):
        if k in old:
            meta[k] = old[k]
    if 'test_suite' not in meta and 'test_suite' in old:
        meta['test_suite'] = old['test_suite']
    hist = old.get('history', [])
    if old.get('checks') and old.get('checks') != meta.get('checks'):
        hist.append({'checks': old['checks']})
    meta['history'] = hist
json.dump(meta, open(os.path.join(out, 'meta.json'), 'w'), indent=1)
print('recorded', out)
