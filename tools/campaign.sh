#!/bin/bash
# tools/campaign.sh [outfile] : run every mutants/Cxx-*.patch through its check (quick tier) on a scratch copy; table to outfile
out=${1:-mutants/RESULTS.md}
cd "$(dirname "$0")/.."
{
echo "| mutant | check | exit | first oracle reported |"
echo "|---|---|---|---|"
for p in mutants/C*.patch; do
  b=$(basename "$p" .patch); c=${b%%-*}
  log=$(tools/mutant.sh "$p" "$c" 2>&1)
  rc=$(echo "$log" | sed -n 's/^== C[0-9]* exit \([0-9]*\)$/\1/p' | tail -1)
  orc=$(echo "$log" | sed -n 's/^  oracle=\([^ ]*\) .*/\1/p' | head -1)
  echo "| $b | $c | ${rc:-?} | ${orc:--} |"
done
} > "$out"
echo "written $out"
