#!/usr/bin/env python3
"""Regenerate MANIFEST.json from the table below (keeps not_applicable current)."""
import json, os
ROOT = os.path.dirname(os.path.dirname(os.path.abspath(__file__)))
props = [json.loads(l) for l in open(os.path.join(ROOT, 'properties.jsonl'))]

# id -> (category, technique, text, note, design_ref)
CHECKS = {
 'C01': ('model_checking',
         'explicit-state BFS over the real State (all operation sequences per configuration), invariant monitor after every logged operation',
         'Exhaustive exploration of every operation sequence of the real State for each configuration of a family grid (forced-bet layouts x stack vectors x variants x chip types x rake/divmod x automation), with the conservation invariant evaluated after every logged operation including automation cascades. Within the stated bounds nothing is sampled.',
         'Bounded: 2-4 players, stacks <= 9 units; draw/stud games deviation-bounded. Trusts Python arithmetic and the harness canonical form (all run-time fields minus the append-only log).',
         'DESIGN.md section 4 C01'),
 'C06': ('model_checking',
         'explicit-state BFS over the real State with a card-accounting invariant and a per-operation card-movement monitor run in lock-step',
         'Exhaustive exploration (within deviation bounds stated per family in the evidence) of operation sequences of configurations built to exhaust the deck (draw games with discard-all, 20-card-deck stud, 7-8 handed stud, explicit/unknown card mixes); after every logged operation the multiset of the six card containers must equal the configured deck and the cards must have moved between the documented piles.',
         'Bounded: stacks small, draw/stud families bounded by k deviations from the default action; engine-chosen cards with a fixed deck order (VERIF_SEED rotates it).',
         'DESIGN.md section 4 C06'),
 'C07': ('model_checking',
         'explicit-state BFS over the real State for all 2^11 automation subsets; phase automaton (documented diagram) run as a monitor on every logged operation; Kahn acyclicity + longest-path bound on the explored graph',
         'All 2048 automation subsets x small configurations x every sequence of available operations (incl. any player order and mucks): exactly one phase active per state, each logged operation follows the documented phase relation, no available operation or constructor raises, the explored state graph is acyclic with its longest path under a structural bound, no deadlock.',
         'Admissible configurations only. Phase of a state is read through the default-argument can_* queries. Known defects (known_findings.json) prune the branch they occur on; counts are in the evidence.',
         'DESIGN.md section 4 C07'),
 'C03': ('model_checking',
         'explicit-state BFS over the real State in product with an independent betting-rules automaton (lock-step conformance on every transition); every candidate amount enumerated at every decision',
         'Every reachable betting state of stack-vector grids (all vectors of {2..6}^3, thorough {1..8}^3; 4-player boundary vectors; straddles, posts, antes, caps, cash/tournament, both warning modes, FL/PL/NL, stud bring-in, draw) is compared with an independently written rules automaton: actor, fold/check-call/bring-in availability and amounts, and acceptance of every raise-to amount 0..max+2 and None, with must-accept / must-refuse / undetermined verdicts.',
         'Two undetermined bands are not judged (counted in the evidence). Stud openers are taken from the engine here (C13 decides them). Stacks are small integers.',
         'DESIGN.md section 4 C03, Appendix A.1'),
 'C02': ('model_checking',
         'explicit-state BFS over the real State for every deal of a tiny deck x every betting/showdown history; terminal states compared with an independent layered pot-award reference computed from the operation log',
         'Tiny-deck games (6-card two-suit deck, hand types Kuhn-high and Kuhn-high+JQ-low, 2-4 players, 1-2 streets, 1-2 boards, run-outs, trimmed/untrimmed antes, rake): every ordered deal and every history are explored; at each terminal state ChipsPushing totals and payoffs must equal the reference award (layering by contribution, eligibility, per board / hand type / winner split with remainders), plus independent side conditions (dead players win nothing, nobody wins more than he covered, lone survivor takes all).',
         'Hand evaluation of the 52-card variants is decided by C04/C05; here the distribution logic is decided for all deals of the tiny deck. Pots with no eligible player while >=2 are live are not judged. Exceptions on histories with an explicit muck belong to the C07 known findings.',
         'DESIGN.md section 4 C02, Appendix A.2'),
 'C12': ('model_checking',
         'explicit-state BFS over the real State (every deal x every history); each terminal state of the default show/muck/kill run compared with a reference award in which every player reaching the showdown tables his hand',
         'For every showdown reached in the tiny-deck families (side pots, two boards, hi-lo, manual default-argument showdown in any kill order) the payoffs produced by the engine-chosen show/muck and kill decisions equal the reference award with everybody tabling; a hand mucked or killed by default wins nothing in the reference; tournament all-in/final showdowns refuse partial shows (two-hole-card family).',
         'Same tiny-deck trusted base as C02. Complete mucks at a tournament all-in are not judged.',
         'DESIGN.md section 4 C12'),
 'C08': ('model_checking',
         'explicit-state BFS over the real State; at every reachable state every operation is attempted with a menu of valid/invalid/boundary arguments on copies, comparing query, verifier and operation and deep state equality after refusals',
         'Every reachable state of small manual/semi-manual state graphs (NT 2-3 players both modes, cash all-in run-outs, stud, single draw, double-board PLO, tiny two-street games with two boards; both warning filters) x the full argument menu (wrong player, wrong phase, amounts around the bounds, non-positive counts, too many / unknown / in-play / duplicate cards, partial shows): can_* returns a bool without raising or mutating, verify_* agrees and is pure, the operation succeeds iff the query said yes, refusals are ValueError/UserWarning and leave every field equal, explicit indices are honoured.',
         'Arguments of the documented types only. Known defects (unknown cards accepted then failing in evaluation; showdown-muck cluster) are listed in known_findings.json and prune their branch.',
         'DESIGN.md section 4 C08'),
 'C09': ('model_checking',
         'explicit-state BFS over pairs (automated State, un-automated twin) for all 2^11 automation subsets; lock-step comparison of appended records and all fields after every event',
         'For all 2048 automation subsets x small configurations (NT heads-up cash with run-outs, NT 3-handed, tiny hi-lo double-board cash game; thorough adds stud, draw, double-board PLO, FL hold\'em) and every sequence of player decisions and manual steps in any player order, an un-automated twin that performs each automated step with default arguments as soon as it becomes available logs exactly the same operation records and has equal run-time fields after every event.',
         'Paths on which the automated state itself raises are C07\'s; twin exceptions on histories with an explicit muck are not judged.',
         'DESIGN.md section 4 C09'),
 'C15': ('model_checking',
         'explicit-state BFS with deepcopy branching; lock-step log-replay twin fed through an explicit record->call map; per-record effect monitor; copy-independence and container-identity scan at every state; fresh replay of every terminal path',
         'Every history of small NT/stud/razz/draw/badugi/PLO/tiny double-board configurations under automation in {none, all, three mixed}: (1) the records appended by each event, re-applied with their logged players/amounts/cards to a fresh un-automated state, reproduce the same records and equal fields; each record also matches the observed change of stacks, bets, cards and statuses; (2) a fresh state fed the same events equals the state reached through deepcopy branching; (3) operating on a deepcopy never changes the original, two copies respond identically, no mutable container is shared.',
         'Deviation-bounded on the larger configurations (bound per family in evidence); warnings ignored.',
         'DESIGN.md section 4 C15'),
 'C13': ('model_checking',
         'exhaustive enumeration of layouts / up-card assignments on the real State: button games explored by BFS in product with the betting automaton seeded by an independent layout-based opener reference; stud cases dealt explicitly and compared with an independent door-card / exposed-hand reference',
         'Button games: every blind/straddle/post layout over {0,1,2,4,-2}^n (n=2..4, thorough 5) x short/deep stack patterns, first and later rounds, actor compared at every state. Stud and razz: every ordered door-card assignment (all 2652 for 2 players; 3-4 players over sub-decks, thorough full deck for 3) incl. all-in designees, and every assignment of 2-4 up-cards per player over 2-3 rank sub-decks (pairs, trips, quads, suit-only differences).',
         'Layouts whose largest blind is not the last positive entry are undetermined and skipped. Two genuine opener defects are listed in known_findings.json (heads-up non-ascending layouts; short last-blind poster).',
         'DESIGN.md section 4 C13'),
 'C14': ('model_checking',
         'explicit-state BFS over the real State with a run-out reference model evaluated at every showdown state (who is offered the choice) and every terminal state (consensus, board algebra, pot split)',
         'Every history of tiny-stack NT/PO/NS and a cheap hold\'em-like custom game (2-3 players, cash and tournament, 1-2 starting boards) with the all-in completed on every possible street, every preference vector over {None,1,2,3}, every selection order by explicit player index interleaved with showing, manual and automated dealing: the choice is offered exactly to the live players who have not chosen, only in cash mode with board cards to come, once; the run-out count follows the consensus rule; b*r complete boards, run-outs share exactly the pre-all-in cards, no card twice, b resp. b*r cards per board position, each pot split evenly over boards with the remainder on board 0.',
         'Hold\'em-like street lists only. Exceptions on histories of the shapes covered by the C07 known findings are not judged.',
         'DESIGN.md section 4 C14'),
 'C10': ('model_checking',
         'explicit-state BFS over the real State in product with an independent per-street dealing-protocol automaton stepped on every logged operation (incl. automation cascades)',
         'Flop, stud, razz, single/triple draw, badugi, Omaha and custom street lists (hole and board on one street, mixed facing, draw with up-cards, no burn), 2-3 players (thorough 4), 1-2 boards, 20-card-deck stud (replenish, hole-to-board fallback) and 7-8 handed stud: every history within k deviations from the default betting action x every dealing interleaving (default, several cards per call, explicit dealee) x discards none/one/two/all is checked against the street definitions: burn first iff prescribed, per live player exactly the prescribed cards with the prescribed facing, default dealee order, cards per board, draws return exactly what was discarded with the same facing, folded players get nothing, no betting before dealing is complete.',
         'Deviation bound per family in the evidence; admissible decks only; cards per default deal_hole() call are not constrained.',
         'DESIGN.md section 4 C10'),
 'C11': ('model_checking',
         'exhaustive comparison of every variant class / PHH code x parameter grid with an independent variant table, plus explicit-state BFS of each variant in product with the betting automaton instantiated from that table',
         'Static: the 12 predefined classes and the 11 PHH variant codes x bet sizes x 2-4 players x modes are compared field by field (deck as a set, hand types, per street burn / hole facing / board cards / draw / opening rule / small-big bet / cap, structure, forced-bet kind) with a table written from the rules of the games. Dynamic: every history within k deviations on two stack vectors per variant plus heads-up raise wars to depth 6 is explored in lock-step with the betting-rules automaton configured from the table, so a variant wired with the wrong structure, bet size or cap accepts amounts the table forbids; split games must push a high and a low half on scripted decks.',
         'The table is the trusted base (refs/variants.py); deviation-bounded dynamic part.',
         'DESIGN.md section 4 C11'),
 'C04': ('model_checking',
         'exhaustive enumeration of the complete input space (every card subset of the deck of the admissible sizes, per hand type) through the real constructor, lookup and comparison operators, against an independent rule-based evaluator; order isomorphism decided over all reference classes',
         'All 2,598,960 five-card subsets of the 52-card deck for each of the 8 five-card hand classes, all 294,203 subsets of size 1-4 for both badugi classes, every card for Kuhn: constructor accepts exactly the valid hands; every hand carries the label the rules give it, compares ==, not <, hash-equal with the canonical representative of its reference class; every reference class has one entry index and indices are strictly monotone in strength (so every pair of hands is decided at class level); class representatives are compared pairwise with the real <, ==, >, <=, >=, != (quick: 48-rung ladder + 4 nearest neighbours per class; thorough: all ordered pairs). Wrong sizes, unknown ranks/suits and foreign ranks must be rejected.',
         'Tuples with a repeated card are not card sets (counted, not judged). KeyError for unknown ranks would be counted as rejection. Trusts refs/handeval.py (written from the rules, no pokerkit import).',
         'DESIGN.md section 4 C04'),
 'C05': ('model_checking',
         'exhaustive enumeration of every (hole, board) pair over structured sub-decks per hand type and admissible shape through the real from_game/from_game_or_none and real States (get_hand/get_up_hand), against a brute-force maximum over the combinations the composition rule allows',
         'For each of the 11 hand classes, every disjoint (hole, board) over 2-3 structured sub-decks (10-13 cards: wheels, broadway, straight flushes, quads, full house vs flush, qualifying / non-qualifying / paired lows, rainbow / suited / paired badugis) with 0-7 hole and 0-5 board cards: the reported hand is a legal combination under the composition rule (any five; exactly two hole + three board for Omaha and Omaha-8; both hole + three board for Greek; largest rainbow-unpaired subset for badugi), has the strength of the brute-force maximum, and None is reported exactly when no legal combination is a hand; from_game raises ValueError exactly then. Ten game shapes are also dealt on real States and get_hand / get_up_hand compared.',
         'Sub-decks, not the 52-card product; Greek hold\'em judged for two hole cards only. Evaluator = refs/handeval.py (decided against the implementation for all hands by C04).',
         'DESIGN.md section 4 C05'),

 'C19': ('model_checking',
         'exhaustive enumeration of representation grids (every form of every small value vector, every card text/container form, every layout of a validity grid, every amount x divisor / rake parameter) through the real clean_values, Card.parse/clean, State constructor, game factories, State operations, divmod and rake, against the explicit form / an independent validity predicate / the sum identity',
         'Value vectors in {0..3}^n (n<=4) in 10-13 forms (scalar, list, tuple, generator, iterator, trailing zeros dropped, over-long, mappings with positive / negative / mixed keys, with and without zeros, any insertion order) through clean_values and as antes / blinds / stacks of real States and of 5 game factories (equal states field by field); 53 cards x text forms incl. 10 for T and unknown rank/suit, all ordered pairs in 11 container/separator forms, triples over a sub-deck, and as arguments of deal_hole / burn_card / deal_board / stand_pat_or_discard; the full layout grid antes {-1,0,1}^n x blinds {0,1,2,-2}^n x bring-in {0,1,2} x stacks {0,1,5}^n x n {1,2,3} x boards {0,1} (+ scalar grid with n=0..3) against the documented validity predicate, rejections must be ValueError; divmod on 0..60 x 1..6 and rake x percentages x caps for int / Fraction / float / Decimal add up.',
         'Mapping keys outside [-n, n) are not judged; float/Decimal sums compared to 1e-9.',
         'DESIGN.md section 4 C19'),

 'C18': ('model_checking',
         'exhaustive enumeration of the notation grid, of every full and partial deal of small-deck families with the Monte-Carlo sampler replaced by an enumerator that returns every completion exactly once (so the real code computes the exact mean), and of payout x chip grids; compared with an independent range expander, exact Fraction showdown shares, the real State played to showdown, and exact Malmuth-Harville ICM',
         'Ranges: all ordered rank pairs of the standard and short-deck orders x {XY, XYs, XYo, XY+, XYs+, XYo+} and every equal-gap interval with each suffix against an independent expander (6 / 4 / 12 / 16 combinations, XY = XYs disjoint-union XYo, elements are two distinct real cards), 15x15 token pairs x 8 separator forms. Equities: 8 (hand types, deck, shape) families incl. Omaha hi-lo, stud hi-lo, badugi, Kuhn and harness high/low types with 2-4 players: every full deal (equities non-negative, sum to one, independent of sample_count, equal to the rules\' shares and to the payoffs of a real State dealt those cards) and every partial deal with <= 3 unknown cards with every completion enumerated through the owned sampler (mean equals the exact Fraction equity), multi-selection ranges with conflicting selections, calculate_hand_strength. ICM: all non-increasing payouts over a grid x chips {1..6}^n, n<=4: non-negative, sums to the prize pool, ordered as the chips, equals exact Malmuth-Harville.',
         'Small decks (6-11 cards); uniform weighting of valid selections is the library\'s semantics; deals where nobody can make any hand are not judged.',
         'DESIGN.md section 4 C18'),

 'C16': ('model_checking',
         'explicit-state exploration of the real State in path mode (search tree not merged: the oracle is the log) with the real PHH writer, TOML dumper/loader and replayer run at every node, plus exhaustive commentary / user-field / single-line-corruption grids',
         'For the 11 PHH variants x {cash, tournament} x automations {PHH default, all, none} x {no ante, short-stacked ante with trimming on/off, BB ante 3-handed} x chips {int, Decimal} x {known cards, unknown cards with explicit shows}: at every node of the history tree within k deviations (every prefix is a partial history, every leaf a terminal one) from_game_state -> dumps -> loads -> dumps is a fixpoint with equal data fields, the game and state rebuilt by the loader have the parameters of the game played (incl. the ante-trimming flag), every action line is applied exactly once, and the replay\'s normalised action stream (per player cards with facing, board cards, draw / bring-in / fold / check-call / raise-to / show-muck records with players, amounts, cards) equals the played one - exactly with equal final stacks and payoffs for terminal histories, as a prefix followed only by documented completions for partial ones. Commentary strings on every player action and stand-alone; user fields over 8 keys x 18 value shapes and 19 optional fields; every single-line corruption (delete, duplicate, wrong player, oversize amount, unknown verb, surplus board cards) of every terminal history either raises or applies every line.',
         'Dealing-record chunking is not compared; partial stud histories cut inside a deal raise KeyError from the opener lookup (counted as error report). Two muck-at-showdown defects of C07 are reached through the loader and reported as known findings.',
         'DESIGN.md section 4 C16'),

 'C17': ('model_checking',
         'explicit-state exploration of the real State in path mode; at every history the real to_acpc_protocol (every viewer seat) and to_pluribus_protocol are compared with an independent renderer fed the played operation log, and every terminal line is parsed back by the real from_acpc_protocol and replayed (loop closed)',
         'No-limit (every raise size) and fixed-limit hold\'em, equal stacks, 2-3 players full depth and 4-6 players within k deviations, automatic and manual showdown (mucked hands), compressed / uncompressed / card-by-card dealing records: at every history whose next step is a player decision or that is terminal, the message list for every viewer seat (one S-> state before each betting action and at the end, one <-C echo after the viewer\'s own actions, betting string with f / c / r or r<total committed by the raiser>, one / per street, the viewer\'s hole cards plus tabled hands, boards) and the Pluribus line (all seats\' cards, payoffs, players) equal the reference; each terminal line parsed back with the same game and stack yields one history that replays to the same betting actions and stacks and renders to the same line.',
         'Histories cut inside dealing or showdown are not judged; hands ended by an explicit muck are not parsed back (the protocol has no muck action). Blinds only (no antes), as in the protocol.',
         'DESIGN.md section 4 C17'),

 'C20': ('model_checking',
         'explicit-state exploration of no-limit hold\'em hands on the real State; every terminal hand rendered in six site formats for every button position (incl. dead button), seat numbering and hero seat, imported with the real HandHistory.from_<site> and replayed, compared with the hand that was rendered; uninterpretable variants of each log must be reported',
         'Every terminal hand within k deviations over 2-4 seats (thorough 5-6), stacks from {6,9,14}, blinds 1/2, int and two-decimal chips, fold-outs, river showdowns and all-ins (site-specific all-in wording) x every button position x gapped / gapless seat numbers x hero seat x {PokerStars, Full Tilt, PartyPoker, iPoker XML, Ongame, Absolute}: the importer yields exactly one history with the players in position order, seats, blinds (heads-up reversal), stacks, min bet, betting actions in raise-to form, boards, hero / shown cards of the rendered hand, and its replay ends with the stacks the log states. Logs with an oversize raise or without the button line must raise ValueError (warning and no history with error_status off).',
         'Weaker trusted base than the other checks: no site corpus is available offline, the renderers (refs/sites.py) encode layout and raise-amount conventions from public format knowledge cross-read against the importer\'s patterns, so the check decides consistency of importer and engine under those conventions. Metadata fields (winnings, finishing stacks) are not judged. One known finding (iPoker showdowns).',
         'DESIGN.md section 4 C20'),

}

def main():
    checks = []
    for pid, (cat, tech, text, note, ref) in sorted(CHECKS.items()):
        checks.append({
            'property_id': pid,
            'quick_cmd': f'./check {pid} --tier quick',
            'thorough_cmd': f'./check {pid} --tier thorough',
            'evidence_file': f'evidence/{pid}.json',
            'replay_cmd_template': f'./check {pid} --replay {{path}}',
            'engine': 'pkmc',
            'level_claimed': {'category': cat, 'text': text, 'design_ref': ref},
            'level_note': note,
            'technique': tech,
        })
    na = [{'property_id': p['id'], 'reason': 'no check registered'}
          for p in props if p['id'] not in CHECKS]
    m = {
     'version': 1,
     'setup_cmd': './check selftest',
     'hooks': {'guard': 'POKERKIT_VERIF',
               'enable': 'none needed: seams are module globals assigned at run time (pokerkit.state.shuffle, pokerkit.utilities.shuffle, pokerkit.analysis.sample/choices) and State._update is wrapped at run time; no source hooks exist, the guard name is reserved and unused',
               'baseline_off_cmd': 'cd /repo && /venv/bin/python -m pytest -ra -q -p no:cacheprovider --timeout=900 --continue-on-collection-errors',
               'source_commits': [], 'add_only': True},
     'engines': [{'name': 'pkmc', 'path': 'pkmc/', 'serves_properties': sorted(CHECKS),
                  'kind_free_text': 'hand-written explicit-state explorer over the real pokerkit.State (BFS, canonical-state dedup, deviation bounds, lock-step reference monitors, twin runs) plus exhaustive input enumerators; Python, runs /repo working tree directly'}],
     'checks': checks,
     'not_applicable': na,
     'notes': 'All checks: ./check <id> --tier quick|thorough ; exit 0 held / 1 VIOLATION / 2 harness unsound. Known findings: known_findings.json.',
    }
    json.dump(m, open(os.path.join(ROOT, 'MANIFEST.json'), 'w'), indent=1)
    print('checks:', [c['property_id'] for c in checks], 'n/a:', len(na))

if __name__ == '__main__':
    main()
