#!/bin/bash
# tools/reseed.sh [outfile] : re-run every seeded change (seeded/*/) through its property's check (quick) on a scratch copy; table
out=${1:-seeded/RESULTS.md}
cd "$(dirname "$0")/.."
{
echo "| seeded change | check | exit | first report |"
echo "|---|---|---|---|"
for d in seeded/C*/; do
  n=$(basename "$d"); c=${n%%-*}
  log=$(SKIP_TESTS=1 python3 tools/seeded.py "$n" "$PWD/seeded/$n" "$c" "$c" 2>&1)
  line=$(echo "$log" | grep "^$c exit" | head -1 | cut -c1-220 | tr '|' '/')
  echo "| $n | $c | $(echo "$line" | sed -n 's/^C[0-9]* exit \([0-9]*\).*/\1/p') | $(echo "$line" | sed 's/^C[0-9]* exit [0-9]* \/ *//') |"
done
} > "$out"
echo "written $out"
