#!/usr/bin/env python3
"""tools/smoke_thorough.py [Cxx ...] : crash test of the thorough tier's code paths without its cost.

For every check: build the thorough job list, take the first job of every family, cut its caps (2000 states / 20 s where the job
has such caps; enumeration jobs run as they are unless they are 'five-card' slices), run it, and report harness errors and
violations.  Not a verdict about any property - the thorough tier itself is - only about whether the thorough commands run.
Run as:  PYTHONPATH=/verif:/repo /venv/bin/python -B tools/smoke_thorough.py
"""
import importlib
import multiprocessing as mp
import os
import sys
import time
import traceback

sys.path.insert(0, os.path.dirname(os.path.dirname(os.path.abspath(__file__))))

SKIP_FAMILIES = {'five-card-all-subsets', 'representative-pairs'}     # C04's heavy enumerations: identical code in quick


def one(args):
    modname, job = args
    mod = importlib.import_module(modname)
    t = time.time()
    try:
        r = mod.run_job(job)
        return modname, job.get('family'), None, len(r.get('violations') or []), round(time.time() - t, 1)
    except Exception:
        return modname, job.get('family'), traceback.format_exc()[-1500:], 0, round(time.time() - t, 1)


def main():
    ids = sys.argv[1:] or [f'C{i:02d}' for i in range(1, 21)]
    todo = []
    for pid in ids:
        modname = f'pkmc.checks.{pid.lower()}'
        mod = importlib.import_module(modname)
        seen = set()
        for j in mod.jobs('thorough', 0):
            f = j.get('family')
            if f in seen or f in SKIP_FAMILIES:
                continue
            seen.add(f)
            j = dict(j)
            if 'state_cap' in j or 'cfg' in j:
                j['state_cap'] = min(j.get('state_cap') or 2000, 2000)
                j['time_cap'] = 20
            todo.append((modname, j))
    print(f'{len(todo)} jobs (one per family of the thorough tier)')
    bad = 0
    with mp.get_context('fork').Pool(14) as pool:
        for modname, fam, err, nv, wall in pool.imap_unordered(one, todo, chunksize=1):
            if err or nv:
                bad += 1
                print(f'!! {modname} {fam}: {"HARNESS ERROR" if err else str(nv) + " violation(s)"} ({wall}s)')
                if err:
                    print(err)
    print('smoke test done:', 'all ran' if not bad else f'{bad} families need attention')
    return 1 if bad else 0


if __name__ == '__main__':
    sys.exit(main())
