#!/bin/bash
# tools/mutant.sh <patch.diff> <check ids...>  : run checks against a scratch copy of /repo with the patch applied
# scratch copy lives in /dev/shm and is removed afterwards; evidence/replays go to the scratch dir, not /verif
set -u
patch=$(realpath "$1"); shift
d=$(mktemp -d /dev/shm/pkmc-mut-XXXXXX)
cp -r /repo/pokerkit "$d/pokerkit"
find "$d" -name __pycache__ -prune -exec rm -rf {} +
( cd "$d" && patch -p1 -s < "$patch" ) || { echo "patch failed"; rm -rf "$d"; exit 3; }
rc=0
for c in "$@"; do
  PKMC_REPO="$d" PKMC_OUT="$d/out" /verif/check "$c" --tier "${TIER:-quick}" 2>&1 | grep -E "^(VIOLATION|KNOWN|C[0-9]+ tier|SANITY|HARNESS|  oracle)" | cut -c1-400
  r=${PIPESTATUS[0]}; echo "== $c exit $r"; [ "$r" != 0 ] && rc=$r
done
rm -rf "$d"
exit $rc
