#!/usr/bin/env python3-vt
"""Validate MANIFEST.json and every evidence file against the schemas in /root/.vp (run with python3-vt)."""
import json, sys, os, glob
import jsonschema
ROOT = os.path.dirname(os.path.dirname(os.path.abspath(__file__)))
ms = json.load(open('/root/.vp/MANIFEST.schema.json'))
es = json.load(open('/root/.vp/EVIDENCE.schema.json'))
m = json.load(open(os.path.join(ROOT, 'MANIFEST.json')))
jsonschema.validate(m, ms)
bad = 0
claimed = {c['property_id'] for c in m['checks']}
na = {c['property_id'] for c in m.get('not_applicable', [])}
props = {json.loads(l)['id'] for l in open(os.path.join(ROOT, 'properties.jsonl'))}
assert claimed | na == props and not (claimed & na), (claimed, na)
for c in m['checks']:
    p = os.path.join(ROOT, c['evidence_file'])
    if not os.path.exists(p):
        print('MISSING', p); bad += 1; continue
    e = json.load(open(p))
    try:
        jsonschema.validate(e, es)
        assert e['property_id'] == c['property_id']
        assert e['level'] == c['level_claimed']['category'], (e['level'], c['level_claimed']['category'])
    except Exception as exc:
        print('INVALID', p, str(exc)[:300]); bad += 1
print('manifest ok; evidence files checked:', len(m['checks']), 'bad:', bad)
sys.exit(1 if bad else 0)
