"""Job pool, aggregation, verdicts, evidence and replay files."""
import ast
import json
import multiprocessing as mp
import os
import sys
import time
from collections import Counter

from . import env, findings

ROOT = os.path.dirname(os.path.dirname(os.path.abspath(__file__)))
OUT = os.environ.get('PKMC_OUT', ROOT)
EVID = os.path.join(OUT, 'evidence')
REPLAYS = os.path.join(OUT, 'replays')

_MOD = None


def _init_worker(modname):
    global _MOD
    import importlib
    _MOD = importlib.import_module(modname)


def _run(job):
    t = time.time()
    try:
        r = _MOD.run_job(job)
    except Exception as exc:  # harness failure, not a verdict
        import traceback
        return {'family': job.get('family', '?'), 'harness_error': traceback.format_exc(),
                'job': _brief(job)}
    r.setdefault('family', job.get('family', '?'))
    r['job_wall_s'] = time.time() - t
    return r


def _brief(job):
    s = repr(job)
    return s if len(s) < 600 else s[:600] + '...'


def jsonable(x):
    from fractions import Fraction
    from decimal import Decimal
    if isinstance(x, dict):
        return {str(k): jsonable(v) for k, v in x.items()}
    if isinstance(x, (list, tuple, set, frozenset)):
        return [jsonable(v) for v in x]
    if isinstance(x, (Fraction, Decimal)):
        return str(x)
    if isinstance(x, (int, float, str, bool)) or x is None:
        return x
    return repr(x)


def run_pool(modname, jobs, nproc):
    if nproc <= 1 or len(jobs) <= 1:
        _init_worker(modname)
        for j in jobs:
            yield _run(j)
        return
    ctx = mp.get_context('fork')
    with ctx.Pool(nproc, initializer=_init_worker, initargs=(modname,)) as pool:
        for r in pool.imap_unordered(_run, jobs, chunksize=1):
            yield r


def write_replay(pid, v, idx):
    os.makedirs(REPLAYS, exist_ok=True)
    path = os.path.join(REPLAYS, f'{pid}-{idx:03d}.json')
    doc = dict(v)
    doc['property'] = pid
    doc['cfg_repr'] = repr(v.get('cfg'))
    doc['cfg'] = jsonable(v.get('cfg'))
    doc['seed'] = env.SEED
    doc['repo'] = env.REPO
    with open(path, 'w') as f:
        json.dump(jsonable(doc), f, indent=1)
    return path


def load_replay(path):
    doc = json.load(open(path))
    if doc.get('cfg_repr'):
        try:
            doc['cfg'] = eval(doc['cfg_repr'], {'Fraction': __import__('fractions').Fraction,
                                                'Decimal': __import__('decimal').Decimal})
        except Exception:
            doc['cfg'] = ast.literal_eval(doc['cfg_repr'])
    doc['events'] = [tuple(e) for e in doc.get('events', [])]
    return doc


def run_check(mod, tier, nproc):
    """Run a check module; returns exit code."""
    pid = mod.PROPERTY
    t0 = time.time()
    import glob
    for old in glob.glob(os.path.join(REPLAYS, f'{pid}-*.json')):
        os.remove(old)
    jobs = mod.jobs(tier, env.SEED)
    agg = {'states': 0, 'transitions': 0, 'validated': 0, 'terminals': 0,
           'max_depth': 0, 'evaluations': 0, 'distinct': 0, 'pruned_errors': 0,
           'deadlocks': 0}
    counters = Counter()
    errors = Counter()
    fam = {}
    violations = []
    samples = []
    caps = []
    harness_errors = []
    outcomes = 0
    njobs = 0
    merges = []
    for r in run_pool(mod.__name__, jobs, nproc):
        njobs += 1
        if 'harness_error' in r:
            harness_errors.append(r)
            continue
        f = fam.setdefault(r['family'], {'jobs': 0, 'states': 0, 'transitions': 0,
                                         'validated': 0, 'evaluations': 0,
                                         'exhaustive': True, 'wall_s': 0.0})
        f['jobs'] += 1
        st = r.get('stats', {})
        for k in ('states', 'transitions', 'terminals', 'pruned_errors', 'deadlocks'):
            agg[k] += st.get(k, 0)
        f['states'] += st.get('states', 0)
        f['transitions'] += st.get('transitions', 0)
        f['wall_s'] = round(f['wall_s'] + r.get('job_wall_s', 0), 2)
        agg['max_depth'] = max(agg['max_depth'], st.get('max_depth', 0))
        agg['validated'] += r.get('validated', 0)
        f['validated'] += r.get('validated', 0)
        agg['evaluations'] += r.get('evaluations', 0)
        f['evaluations'] += r.get('evaluations', 0)
        agg['distinct'] += r.get('distinct', 0)
        outcomes += r.get('outcomes', 0)
        if st.get('capped'):
            caps.append({'family': r['family'], 'cap': st['capped'], 'job': r.get('label', '')})
            f['exhaustive'] = False
        if 'dev_bound' in r:
            f['deviation_bound_completed'] = r['dev_bound']
        counters.update(r.get('counters', {}))
        for k, v in r.get('errors', {}).items():
            errors[k] += v
        violations.extend(r.get('violations', []))
        if 'merge' in r:
            merges.append(r['merge'])
        for s in r.get('samples', []):
            if len(samples) < 12:
                samples.append(s)
    if hasattr(mod, 'finalize') and not harness_errors:
        # global oracles over the union of all jobs (e.g. order isomorphism over all hands)
        fv, fc, fx = mod.finalize(merges, tier)
        violations.extend(fv)
        counters.update(fc)
        agg['distinct'] += fx.get('distinct', 0)
        agg['validated'] += fx.get('validated', 0)
    wall = time.time() - t0

    # verdicts ---------------------------------------------------------
    kf = findings.load()
    new, known = findings.partition(pid, violations, kf)
    for entry, n in known:
        print(f'KNOWN-FINDING: property={pid} {entry["what"]} [{n} occurrence(s), branches pruned]')
    rc = 0
    if os.environ.get('PKMC_DEBUG_SIGS'):
        for sg, n in Counter(v['sig'] for v in new).most_common():
            print('SIG', n, sg)
    shown = set()
    idx = 0
    for v in new:
        if v['sig'] in shown:
            continue
        shown.add(v['sig'])
        idx += 1
        path = write_replay(pid, v, idx)
        print(f'VIOLATION property={pid} replay={path}')
        print(f'  oracle={v["oracle"]} detail={str(v["detail"])[:300]}')
        rc = 1
        if idx >= 10:
            break
    san = getattr(mod, 'sanity', None)
    sanity_msgs = san(agg, counters, fam, tier) if san else []
    if harness_errors:
        for h in harness_errors[:3]:
            sys.stderr.write('HARNESS ERROR in job %s\n%s\n' % (h.get('job'), h['harness_error']))
        rc = rc or 2
    if sanity_msgs and rc == 0:
        for m in sanity_msgs:
            sys.stderr.write(f'SANITY (vacuity guard) failed: {m}\n')
        rc = 2

    # evidence -----------------------------------------------------------
    level = mod.LEVEL
    cov = {}
    if level == 'model_checking' and agg['states']:
        cov.update(states=agg['states'], transitions=agg['transitions'],
                   traces_validated_against_impl=agg['validated'])
        cov['terminal_states'] = agg['terminals']
        cov['max_depth'] = agg['max_depth']
        cov['distinct_outcomes'] = outcomes
    elif level == 'model_checking':
        # input-space enumeration: no state graph; every case is compared with the reference on the real code
        cov['cases_compared_with_reference_on_impl'] = agg['validated']
    if agg['evaluations'] or level != 'model_checking':
        cov['evaluations'] = agg['evaluations']
        cov['distinct_nontrivial'] = agg['distinct']
    cov['rule'] = getattr(mod, 'RULE', '')
    cov['samples'] = samples or ['(none)']
    cov['configurations'] = njobs
    cov['families'] = fam
    cov['counters'] = dict(counters)
    cov['caps_hit'] = caps
    cov['exhaustive'] = not caps and not harness_errors
    cov['pruned_on_known_finding'] = sum(n for _, n in known)
    cov['pruned_on_exception'] = agg['pruned_errors']
    cov['exceptions_seen'] = {str(k): v for k, v in errors.most_common(20)}
    cov['known_findings_reported'] = [e['id'] for e, _ in known]
    cov['bounds'] = mod.bounds(tier) if hasattr(mod, 'bounds') else ''
    cov['repo_head'] = env.repo_head()
    ev = {'property_id': pid, 'tier': tier, 'seed': env.SEED, 'level': level,
          'coverage': jsonable(cov),
          'assumptions': list(getattr(mod, 'ASSUMPTIONS', [])),
          'wall_s': round(wall, 2), 'violations': len(new)}
    os.makedirs(EVID, exist_ok=True)
    with open(os.path.join(EVID, f'{pid}.json'), 'w') as f:
        json.dump(ev, f, indent=1)
    print(f'{pid} tier={tier} seed={env.SEED} jobs={njobs} states={agg["states"]} '
          f'transitions={agg["transitions"]} validated={agg["validated"]} '
          f'evaluations={agg["evaluations"]} violations={len(new)} known={len(known)} '
          f'caps={len(caps)} wall={wall:.1f}s rc={rc}')
    return rc
