"""Configuration descriptors -> real pokerkit states.

A configuration is a plain dict of Python literals (so that it can be written
into a replay file with repr() and read back with ast.literal_eval):

    {'game': 'NoLimitTexasHoldem',            # class name in pokerkit.games, or 'custom'
     'autos': 'ALL' | 'NONE' | int mask | [names],
     'p': {create_state argument name: value, ...},   # automations excluded
     'chips': 'int' | 'fraction' | 'float' | 'decimal',
     'rake': None | ('pct', num, den, cap|None, no_flop_no_drop) | ('min', m),
     'divmod': None | 'last' | 'pairs' (a split rule that differs from the default),
     'plan': None | [card texts that come first in the deck],
     # custom only:
     'deck': 'KUHN6' | 'STANDARD' | ...,  'hand_types': [...],
     'streets': [(burn, hole_statuses, board_n, draw, opening, min_bet, max_count)],
     'structure': 'NL'|'PL'|'FL', 'bring_in': 0}
"""
import inspect
from collections import Counter
from dataclasses import dataclass
from decimal import Decimal
from fractions import Fraction
from functools import partial
from itertools import chain

from . import env

pk = env.pokerkit
S = env.S
A = S.Automation
AUTOS = tuple(A)
ALL = AUTOS
Card = pk.Card
Mode = S.Mode

AUTO_OP = {
    A.ANTE_POSTING: 'post_ante',
    A.BET_COLLECTION: 'collect_bets',
    A.BLIND_OR_STRADDLE_POSTING: 'post_blind_or_straddle',
    A.CARD_BURNING: 'burn_card',
    A.HOLE_DEALING: 'deal_hole',
    A.BOARD_DEALING: 'deal_board',
    A.RUNOUT_COUNT_SELECTION: 'select_runout_count',
    A.HOLE_CARDS_SHOWING_OR_MUCKING: 'show_or_muck_hole_cards',
    A.HAND_KILLING: 'kill_hand',
    A.CHIPS_PUSHING: 'push_chips',
    A.CHIPS_PULLING: 'pull_chips',
}


def autos_of(spec):
    if spec is None or spec == 'NONE':
        return ()
    if spec == 'ALL':
        return AUTOS
    if isinstance(spec, int):
        return tuple(a for i, a in enumerate(AUTOS) if spec >> i & 1)
    return tuple(A[n] if n in A.__members__ else A(n) for n in spec)


def mask_of(autos):
    return sum(1 << AUTOS.index(a) for a in autos)


# ---------------------------------------------------------------- tiny decks
KUHN6 = tuple(Card.parse('JsJhQsQhKsKh'))
KUHN9 = tuple(Card.parse('JsJhJdQsQhQdKsKhKd'))


@dataclass
class JQLowLookup(pk.lookups.Lookup):
    """Harness-defined one-card low: only J and Q qualify, J is best."""
    rank_order = (pk.Rank.JACK, pk.Rank.QUEEN)

    def _add_entries(self):
        self._add_multisets(Counter({1: 1}), (True,), pk.lookups.Label.HIGH_CARD)


class JQLow(pk.hands.Hand):
    lookup = JQLowLookup()
    low = True

    @classmethod
    def from_game(cls, hole_cards, board_cards=()):
        hs = []
        for c in chain(Card.clean(hole_cards), Card.clean(board_cards)):
            try:
                hs.append(cls([c]))
            except ValueError:
                pass
        if not hs:
            raise ValueError('no low')
        return max(hs)


class KuhnAny(pk.hands.Hand):
    """Best single card of hole+board under the Kuhn lookup (high)."""
    lookup = pk.hands.KuhnPokerHand.lookup
    low = False

    @classmethod
    def from_game(cls, hole_cards, board_cards=()):
        hs = []
        for c in chain(Card.clean(hole_cards), Card.clean(board_cards)):
            try:
                hs.append(cls([c]))
            except ValueError:
                pass
        if not hs:
            raise ValueError('no hand')
        return max(hs)


@dataclass
class HighCardLookup(pk.lookups.Lookup):
    """Harness-defined one-card high hand over the standard rank order (cheap evaluation on 52 cards)."""
    rank_order = pk.RankOrder.STANDARD

    def _add_entries(self):
        self._add_multisets(Counter({1: 1}), (True,), pk.lookups.Label.HIGH_CARD)


class HighCardAny(pk.hands.Hand):
    lookup = HighCardLookup()
    low = False

    @classmethod
    def from_game(cls, hole_cards, board_cards=()):
        hs = [cls([c]) for c in chain(Card.clean(hole_cards), Card.clean(board_cards)) if c]
        if not hs:
            raise ValueError('no hand')
        return max(hs)


@dataclass
class TwoCardLookup(pk.lookups.Lookup):
    """Harness-defined two-card hands over the standard rank order: a pair beats any two unpaired cards."""
    rank_order = pk.RankOrder.STANDARD

    def _add_entries(self):
        self._add_multisets(Counter({1: 2}), (False, True), pk.lookups.Label.HIGH_CARD)
        self._add_multisets(Counter({2: 1}), (False,), pk.lookups.Label.ONE_PAIR)


class TwoCardAny(pk.hands.Hand):
    """Best two-card hand among hole and board cards (cheap hand type in which a board card can pair a hole card)."""
    lookup = TwoCardLookup()
    low = False

    @classmethod
    def from_game(cls, hole_cards, board_cards=()):
        from itertools import combinations
        cards = [c for c in chain(Card.clean(hole_cards), Card.clean(board_cards)) if c]
        best = None
        for comb in combinations(cards, 2):
            h = cls(comb)
            if best is None or h > best:
                best = h
        if best is None:
            raise ValueError('no hand')
        return best


HAND_TYPES = {'JQLow': JQLow, 'KuhnAny': KuhnAny, 'HighCardAny': HighCardAny, 'TwoCardAny': TwoCardAny}
DECKS = {'KUHN6': KUHN6, 'KUHN9': KUHN9}


def hand_type(name):
    if name in HAND_TYPES:
        return HAND_TYPES[name]
    return getattr(pk.hands, name)


def deck_of(name):
    if isinstance(name, (list, tuple)):
        return tuple(Card.parse(''.join(name)))
    if name in DECKS:
        return DECKS[name]
    return getattr(pk.Deck, name)


STRUCT = {'NL': S.BettingStructure.NO_LIMIT, 'PL': S.BettingStructure.POT_LIMIT,
          'FL': S.BettingStructure.FIXED_LIMIT}
OPENING = {o.name: o for o in S.Opening}


# ---------------------------------------------------------------- chip types
def chip_conv(kind):
    if kind in (None, 'int'):
        return lambda x: x
    if kind == 'fraction':
        return lambda x: Fraction(x, 3)
    if kind == 'float':
        return lambda x: x * 0.25
    if kind == 'decimal':
        return lambda x: Decimal(x) * Decimal('0.25')
    raise ValueError(kind)


def _conv_values(v, conv):
    if isinstance(v, dict):
        return {k: conv(x) for k, x in v.items()}
    if isinstance(v, (list, tuple)):
        return tuple(conv(x) for x in v)
    return conv(v)


CHIP_PARAMS = ('raw_antes', 'raw_blinds_or_straddles', 'raw_starting_stacks',
               'min_bet', 'small_bet', 'big_bet', 'bring_in')


def divmod_last(dividend, divisor):
    """Custom divmod used as a configuration: same parts, remainder as is."""
    if isinstance(dividend, int):
        return divmod(dividend, divisor)
    q = dividend / divisor
    return q, dividend - q * divisor


def divmod_pairs(dividend, divisor):
    """A caller's split rule that differs from the default: chips come in pairs, each share is a whole number of pairs and the
    rest (up to 2 * divisor - 1 chips, not just divisor - 1) is the remainder."""
    q = (dividend // (2 * divisor)) * 2
    return q, dividend - q * divisor


DIVMODS = {'last': divmod_last, 'pairs': divmod_pairs}


def _min_rake(amount, state=None, *, m=1):
    r = min(amount, m)
    return r, amount - r


def rake_of(spec, conv):
    if spec is None:
        return None
    if spec[0] == 'pct':
        _, num, den, cap, nfnd = spec
        kind = type(conv(1))
        if kind is int:
            pct = num / den
        elif kind is float:
            pct = num / den
        elif kind is Fraction:
            pct = Fraction(num, den)
        else:
            pct = Decimal(num) / Decimal(den)
        kw = dict(percentage=pct, no_flop_no_drop=nfnd)
        if cap is not None:
            kw['cap'] = conv(cap)
        # the library's own rake function configured as its documentation shows (functools.partial), used as is: both parts
        # of its answer reach the state
        return partial(pk.utilities.rake, **kw)
    if spec[0] == 'min':
        return partial(_min_rake, m=conv(spec[1]))
    raise ValueError(spec)


# ---------------------------------------------------------------- builder
def build(cfg, autos=None):
    """Create the real State described by cfg (fresh object, real code)."""
    env.set_deck_plan(cfg.get('plan'))
    conv = chip_conv(cfg.get('chips'))
    au = autos_of(cfg.get('autos') if autos is None else autos)
    p = dict(cfg.get('p', {}))
    for k in CHIP_PARAMS:
        if k in p:
            p[k] = _conv_values(p[k], conv)
    if 'mode' in p and not isinstance(p['mode'], Mode):
        p['mode'] = Mode.CASH_GAME if p['mode'] in ('cash', 'CASH_GAME', 'Cash-game') else Mode.TOURNAMENT
    rk = rake_of(cfg.get('rake'), conv)
    if rk is not None:
        p['rake'] = rk
    if cfg.get('divmod'):
        p['divmod'] = DIVMODS[cfg['divmod']]
    if cfg['game'] == 'custom':
        streets = tuple(
            S.Street(b, tuple(h), n, d, OPENING[o], conv(mb) if cfg.get('chips') not in (None, 'int') else mb, mc)
            for (b, h, n, d, o, mb, mc) in cfg['streets'])
        kw = {}
        for k in ('mode', 'starting_board_count', 'divmod', 'rake'):
            if k in p:
                kw[k] = p[k]
        return S.State(
            au, deck_of(cfg['deck']),
            tuple(hand_type(h) for h in cfg['hand_types']),
            streets, STRUCT[cfg['structure']],
            p.get('ante_trimming_status', True),
            p.get('raw_antes', 0), p.get('raw_blinds_or_straddles', 0),
            p.get('bring_in', 0), p['raw_starting_stacks'], p['player_count'],
            **kw)
    cls = getattr(pk.games, cfg['game'])
    sig = inspect.signature(cls.create_state)
    args = []
    kwargs = {}
    for name, par in sig.parameters.items():
        if name == 'automations':
            args.append(au)
        elif par.kind == par.KEYWORD_ONLY:
            if name in p:
                kwargs[name] = p[name]
        else:
            if name not in p:
                raise KeyError(f'{cfg["game"]}.create_state needs {name}')
            args.append(p[name])
    st = cls.create_state(*args, **kwargs)
    if cfg.get('deck_override'):
        kw = dict(mode=st.mode, starting_board_count=st.starting_board_count,
                  divmod=st.divmod, rake=st.rake)
        st = S.State(st.automations, deck_of(cfg['deck_override']), st.hand_types, st.streets,
                     st.betting_structure, st.ante_trimming_status, st.antes,
                     st.blinds_or_straddles, st.bring_in, st.starting_stacks,
                     st.player_count, **kw)
    return st


def describe(cfg):
    p = cfg.get('p', {})
    bits = [cfg['game']]
    for k in ('raw_antes', 'raw_blinds_or_straddles', 'bring_in', 'raw_starting_stacks'):
        if k in p and p[k]:
            bits.append(f'{k.replace("raw_", "")}={p[k]}')
    for k in ('mode', 'starting_board_count'):
        if k in p:
            bits.append(f'{k}={p[k]}')
    for k in ('autos', 'chips', 'rake', 'divmod', 'structure'):
        if cfg.get(k) is not None:
            bits.append(f'{k}={cfg[k]}')
    return ' '.join(map(str, bits))


# ---------------------------------------------------------------- shorthands
def nt(stacks, blinds=(1, 2), antes=0, autos='ALL', mode='tournament', trim=True,
       boards=1, min_bet=2, game='NoLimitTexasHoldem', **extra):
    cfg = {'game': game, 'autos': autos,
           'p': {'ante_trimming_status': trim, 'raw_antes': antes,
                 'raw_blinds_or_straddles': blinds, 'min_bet': min_bet,
                 'raw_starting_stacks': tuple(stacks),
                 'player_count': len(stacks), 'mode': mode,
                 'starting_board_count': boards}}
    cfg.update(extra)
    return cfg


def fl(stacks, blinds=(1, 2), antes=0, autos='ALL', mode='tournament', trim=True,
       small=2, big=4, game='FixedLimitTexasHoldem', boards=1, **extra):
    cfg = {'game': game, 'autos': autos,
           'p': {'ante_trimming_status': trim, 'raw_antes': antes,
                 'raw_blinds_or_straddles': blinds, 'small_bet': small,
                 'big_bet': big, 'raw_starting_stacks': tuple(stacks),
                 'player_count': len(stacks), 'mode': mode,
                 'starting_board_count': boards}}
    cfg.update(extra)
    return cfg


def stud(stacks, antes=1, bring_in=1, autos='ALL', mode='tournament', trim=True,
         small=2, big=4, game='FixedLimitSevenCardStud', **extra):
    cfg = {'game': game, 'autos': autos,
           'p': {'ante_trimming_status': trim, 'raw_antes': antes,
                 'bring_in': bring_in, 'small_bet': small, 'big_bet': big,
                 'raw_starting_stacks': tuple(stacks),
                 'player_count': len(stacks), 'mode': mode}}
    cfg.update(extra)
    return cfg


def custom(stacks, streets, deck='KUHN6', hand_types=('KuhnPokerHand',),
           structure='NL', antes=1, blinds=0, bring_in=0, autos='ALL',
           mode='tournament', trim=True, boards=1, **extra):
    cfg = {'game': 'custom', 'autos': autos, 'deck': deck,
           'hand_types': list(hand_types), 'streets': list(streets),
           'structure': structure,
           'p': {'ante_trimming_status': trim, 'raw_antes': antes,
                 'raw_blinds_or_straddles': blinds, 'bring_in': bring_in,
                 'raw_starting_stacks': tuple(stacks),
                 'player_count': len(stacks), 'mode': mode,
                 'starting_board_count': boards}}
    cfg.update(extra)
    return cfg


# hold'em-like street list (2 hole cards; flop/turn/river with burns), min bet 2
HOLDEM_LIKE = [(False, (False, False), 0, False, 'POSITION', 2, None), (True, (), 3, False, 'POSITION', 2, None),
               (True, (), 1, False, 'POSITION', 2, None), (True, (), 1, False, 'POSITION', 2, None)]

# street templates for custom games: (burn, hole, board, draw, opening, min, max)
KUHN_1 = [(False, (False,), 0, False, 'POSITION', 1, None)]
TWO_STREET = [(False, (False,), 0, False, 'POSITION', 1, None),
              (False, (), 1, False, 'POSITION', 1, None)]
TWO_STREET_BURN = [(False, (False,), 0, False, 'POSITION', 1, None),
                   (True, (), 1, False, 'POSITION', 1, None)]
