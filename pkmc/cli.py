"""./check <Cxx|selftest> [--tier quick|thorough] [--replay FILE] [--jobs N]"""
import argparse
import importlib
import os
import sys


def main():
    ap = argparse.ArgumentParser()
    ap.add_argument('what')
    ap.add_argument('--tier', default=os.environ.get('VERIF_TIER', 'quick'), choices=['quick', 'thorough'])
    ap.add_argument('--replay')
    ap.add_argument('--jobs', type=int, default=int(os.environ.get('PKMC_JOBS', '0')) or min(16, os.cpu_count() or 1))
    a = ap.parse_args()
    from . import env, runner, canon
    canon.scan_operations_use()
    if a.what == 'selftest':
        from . import selftest
        sys.exit(selftest.main())
    mod = importlib.import_module(f'pkmc.checks.{a.what.lower()}')
    if a.replay:
        doc = runner.load_replay(a.replay)
        from . import replay
        sys.exit(replay.run(mod, doc))
    sys.exit(runner.run_check(mod, a.tier, a.jobs))


if __name__ == '__main__':
    main()
