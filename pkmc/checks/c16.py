"""C16 - hand histories survive a save/load round trip and replay to the same result.

Explicit-state exploration in path mode (the search tree is not merged: the oracle is the log)
over the 11 PHH variants: at every node (terminal or partial history) the real writer, TOML
dumper/loader and replayer are run and compared with the hand that was played; on every edge
the text written for the new operations is parsed back on a twin.  Exhaustive grids for
commentary / user fields and single-line corruptions.
"""
import copy
import datetime
from collections import Counter
from dataclasses import fields
from decimal import Decimal

from .. import env, canon
from ..alphabet import opts as mk_opts
from ..explore import explore, exc_signature

PROPERTY = 'C16'
LEVEL = 'model_checking'
RULE = ('every history (all prefixes = partial histories, all leaves = terminal histories) within k deviations from the default '
        'action of the 11 PHH variants x {cash, tournament} x automations {PHH default, all, none} x {no ante, short-stacked ante with '
        'trimming on/off} x chips {int, Decimal}; known cards from a fixed deck order and unknown cards with explicit shows; '
        'commentary alphabet x operation kinds; user-field keys x values; single-line corruptions at every position. distinct '
        'non-trivial = distinct (variant, normalised action stream) histories round-tripped')
ASSUMPTIONS = ['replay always runs in cash-game mode with the loader\'s automations (that is how HandHistory builds games); chunking of '
               'dealing records is not compared (compression merges it)',
               'partial stud histories cut inside a deal make the loader deal unknown up-cards; the KeyError raised by the opener '
               'lookup is an error report (counted), not a silent divergence',
               'keys / strings with newlines, triple quotes, dots or = are outside the alphabet']

PHH_AUTOS = ('ANTE_POSTING', 'BET_COLLECTION', 'BLIND_OR_STRADDLE_POSTING', 'CARD_BURNING', 'RUNOUT_COUNT_SELECTION',
             'HAND_KILLING', 'CHIPS_PUSHING', 'CHIPS_PULLING')
CODES = ['FT', 'NT', 'NS', 'PO', 'FO/8', 'F7S', 'F7S/8', 'FR', 'N2L1D', 'F2L3D', 'FB']
LIMIT = {'FT', 'FO/8', 'F2L3D', 'FB'}
NOLIMIT = {'NT', 'NS', 'PO', 'N2L1D'}
STUD = {'F7S', 'F7S/8', 'FR'}


def HH():
    from pokerkit.notation import HandHistory
    return HandHistory


def conv_of(chips):
    if chips == 'decimal':
        return lambda x: Decimal(x) * Decimal('0.50')
    return lambda x: x


def mk_game(cfg):
    """cfg: {'code', 'mode', 'autos', 'trim', 'antes', 'chips'} -> Poker game object"""
    from ..configs import autos_of
    S = env.S
    cls = HH().game_types[cfg['code']]
    cv = conv_of(cfg.get('chips'))
    autos = autos_of(cfg['autos'])
    mode = S.Mode.CASH_GAME if cfg['mode'] == 'cash' else S.Mode.TOURNAMENT
    antes = cfg.get('antes', 0)
    antes = tuple(cv(a) for a in antes) if isinstance(antes, (tuple, list)) else cv(antes)
    code = cfg['code']
    if code in LIMIT:
        return cls(autos, cfg['trim'], antes, (cv(1), cv(2)), cv(2), cv(4), mode=mode)
    if code in NOLIMIT:
        return cls(autos, cfg['trim'], antes, (cv(1), cv(2)), cv(2), mode=mode)
    return cls(autos, cfg['trim'], antes or cv(1), cv(1), cv(2), cv(4), mode=mode)


def build(cfg):
    g = mk_game(cfg)
    cv = conv_of(cfg.get('chips'))
    return g(tuple(cv(s) for s in cfg['stacks']), len(cfg['stacks']))


def norm(ops):
    """normalised action stream: per player the (card, facing) sequence, per board... the board cards, player/showdown records"""
    holes = {}
    board = []
    out = []
    for o in ops:
        n = type(o).__name__
        if n == 'HoleDealing':
            holes.setdefault(o.player_index, []).extend((repr(c), bool(s)) for c, s in zip(o.cards, o.statuses))
        elif n == 'BoardDealing':
            board.extend(repr(c) for c in o.cards)
        elif n == 'StandingPatOrDiscarding':
            out.append(('sd', o.player_index, tuple(map(repr, o.cards))))
        elif n == 'BringInPosting':
            out.append(('pb', o.player_index, o.amount))
        elif n == 'Folding':
            out.append(('f', o.player_index))
        elif n == 'CheckingOrCalling':
            out.append(('cc', o.player_index, o.amount))
        elif n == 'CompletionBettingOrRaisingTo':
            out.append(('cbr', o.player_index, o.amount))
        elif n == 'HoleCardsShowingOrMucking':
            out.append(('sm', o.player_index, tuple(map(repr, o.hole_cards))))
    return out, holes, board


def data_fields(hh):
    d = {}
    for f in fields(hh):
        v = getattr(hh, f.name)
        if callable(v):
            continue
        d[f.name] = v
    return d


GAME_ATTRS = ('ante_trimming_status', 'bring_in', 'small_bet', 'big_bet', 'min_bet')
STATE_ATTRS = ('antes', 'blinds_or_straddles', 'bring_in', 'starting_stacks', 'ante_trimming_status', 'streets',
               'betting_structure', 'deck', 'hand_types', 'player_count')


class RoundTrip:
    """Node oracle (dump/load fixpoint, field equality, game reconstruction, replay) and edge oracle (print/parse inverse)."""
    name = 'roundtrip'

    def __init__(self, cfg, game, check_corruptions=False):
        self.cfg = cfg
        self.game = game
        self.corrupt = check_corruptions
        self.streams = set()

    def shape(self):
        c = self.cfg
        return f'{c["code"]}'

    def on_state(self, st, ms, menu, ctx):
        H = HH()
        code = self.cfg['code']
        ctx.counters['histories'] += 1
        ctx.counters['terminal_histories' if not st.status else 'partial_histories'] += 1
        try:
            hh = H.from_game_state(self.game, st)
            t = hh.dumps()
            hh2 = H.loads(t)
            t2 = hh2.dumps()
        except Exception as exc:
            sig = exc_signature(exc)
            ctx.violation('write-load-raised', f'{type(exc).__name__}: {exc} at {sig[1]}', sig=('C16', 'write-load-raised') + sig[:2])
            return
        if t2 != t:
            ctx.violation('dump-not-fixpoint', f'saving the loaded history gives a different text:\n{t}\n---\n{t2}',
                          sig=('C16', 'dump-not-fixpoint', code))
        a, b = data_fields(hh), data_fields(hh2)
        if a != b:
            diff = [k for k in a if a[k] != b.get(k)]
            ctx.violation('fields-changed-by-save-load', f'fields {diff}: {[(a[k], b.get(k)) for k in diff][:3]}',
                          sig=('C16', 'fields-changed', ','.join(diff)))
        # the game the loader reconstructs
        try:
            g2 = hh2.create_game()
            s2 = hh2.create_state()
        except Exception as exc:
            sig = exc_signature(exc)
            ctx.violation('create-game-raised', f'{type(exc).__name__}: {exc}', sig=('C16', 'create-game-raised') + sig[:2])
            return
        if ctx.counters['histories'] == 1 or not st.status:
            for nm in GAME_ATTRS:
                try:
                    x = getattr(self.game, nm, None)
                except ValueError:        # e.g. min_bet of a fixed-limit game
                    continue
                y = getattr(g2, nm, None)
                if x != y:
                    ctx.violation('game-parameter-lost', f'{nm}: the game has {x!r}, the game rebuilt from the saved history {y!r}',
                                  sig=('C16', 'game-parameter-lost', nm))
            for nm in STATE_ATTRS:
                x, y = getattr(st, nm), getattr(s2, nm)
                if x != y:
                    ctx.violation('game-parameter-lost', f'state.{nm}: played {x!r}, rebuilt {y!r}', sig=('C16', 'game-parameter-lost', nm))
        # replay
        yielded = []
        kinds = []          # per applied action line: 'check', 'faced-fold' or None (what the loader may be left to infer)
        fin = None
        seen_ops = 0
        from ..refs.protocol import Tracker
        tr = Tracker(st.player_count)
        try:
            for s, act in hh2.state_actions:
                fin = s
                new = s.operations[seen_ops:]
                seen_ops = len(s.operations)
                kind = None
                for o in new:
                    nm = type(o).__name__
                    if act is not None and nm == 'CheckingOrCalling' and o.amount == 0 and act.split()[1:2] == ['cc']:
                        kind = 'check'
                    if act is not None and nm == 'Folding' and act.split()[1:2] == ['f'] and \
                            tr.street[o.player_index] < max(tr.street):
                        kind = 'faced-fold'
                    tr.feed(o)
                if act is not None:
                    yielded.append(act)
                    kinds.append(kind)
        except KeyError as exc:
            if "UNKNOWN" in repr(exc) and st.status:
                ctx.counters['partial_replay_raised_on_unknown_up_card_not_judged'] += 1
                return
            ctx.violation('replay-raised', f'KeyError {exc}', sig=('C16', 'replay-raised', 'KeyError'))
            return
        except Exception as exc:
            sig = exc_signature(exc)
            # abstract shape of the history (known findings of C07 about mucks at showdown only match their own shape)
            if any(e[0] == 'show_or_muck_hole_cards' and len(e) > 1 and e[1] is False for e in ctx.path):
                shape = 'after-muck'
            elif st.status and st.can_show_or_muck_hole_cards():
                shape = 'showdown-completed-by-loader-muck'     # the loader completes a partial showdown by mucking
            else:
                shape = 'plain'
            ctx.violation('replay-raised', f'{type(exc).__name__}: {exc} at {sig[1]}: {sig[2]}',
                          sig=('C16', 'replay-raised') + sig[:2] + ('terminal' if not st.status else 'partial', shape))
            return
        ctx.counters['action_lines_replayed'] += len(yielded)
        if yielded != list(hh2.actions):
            ctx.violation('actions-not-all-applied', f'{len(yielded)} of {len(hh2.actions)} action lines were applied, no error',
                          sig=('C16', 'actions-not-all-applied'))
        pa, ph, pb = norm(st.operations)
        ra, rh, rb = norm(fin.operations)
        self.streams.add((code, repr(pa), repr(sorted(ph.items())), repr(pb)))
        ctx.counters['replays_compared'] += 1
        if not st.status:
            ok = (pa, ph, pb) == (ra, rh, rb)
            if not ok:
                ctx.violation('replay-differs', f'terminal history: played {pa} holes {ph} board {pb}; replay {ra} holes {rh} board {rb}',
                              sig=('C16', 'replay-differs', 'terminal', code))
            elif fin.status or list(fin.stacks) != list(st.stacks) or list(fin.payoffs) != list(st.payoffs):
                ctx.violation('replay-result-differs', f'played stacks {st.stacks} payoffs {st.payoffs}; replay status {fin.status} stacks '
                              f'{fin.stacks} payoffs {fin.payoffs}', sig=('C16', 'replay-result-differs', code))
        else:
            ok = ra[:len(pa)] == pa and rb[:len(pb)] == pb and all(x[0] == 'sm' for x in ra[len(pa):])
            for i in range(st.player_count):
                x, y = ph.get(i, []), rh.get(i, [])
                if y[:len(x)] != x or any(c != '??' for c, _ in y[len(x):]):
                    ok = False
            if not ok:
                ctx.violation('replay-differs', f'partial history: played {pa} holes {ph} board {pb}; replay {ra} holes {rh} board {rb}',
                              sig=('C16', 'replay-differs', 'partial', code))
        if self.corrupt and not st.status:
            self.corruptions(hh2, st, ctx)
            self.omissions(hh2, st, yielded, kinds, (pa, ph, pb), ctx)

    # histories that leave checks and forced folds to the loader are completed to the same hand
    def omissions(self, hh, st, acts, kinds, played, ctx):
        H = HH()
        n = len(acts)
        variants = []
        for what in ('check', 'faced-fold'):
            # a step can be inferred only while later lines remain to be applied
            idx = [i for i, k in enumerate(kinds) if k == what and i < n - 1]
            if idx:
                variants.append((f'all-{what}s-omitted', [a for i, a in enumerate(acts) if i not in idx]))
                for i in idx:
                    variants.append((f'one-{what}-omitted', acts[:i] + acts[i + 1:]))
        for what, va in variants:
            ctx.counters['histories_with_omitted_steps'] += 1
            d = data_fields(hh)
            d['actions'] = va
            try:
                fin = list(H(**d))[-1]
            except Exception as exc:
                ctx.violation('omitted-step-not-completed', f'{what}: actions {va} (full history {acts}): {type(exc).__name__}: {exc}',
                              sig=('C16', 'omitted-step-not-completed', what.split('-', 1)[1], type(exc).__name__))
                continue
            if norm(fin.operations) != played or list(fin.stacks) != list(st.stacks) or fin.status:
                ctx.violation('omitted-step-completed-differently',
                              f'{what}: actions {va} replay to {norm(fin.operations)[0]} stacks {fin.stacks}; the full history {acts} '
                              f'gives {played[0]} stacks {st.stacks}', sig=('C16', 'omitted-step-completed-differently', what.split('-', 1)[1]))

    # single-line corruptions of a terminal history: never silently truncated
    def corruptions(self, hh, st, ctx):
        H = HH()
        acts = list(hh.actions)
        n = st.player_count
        tot = sum(st.starting_stacks)
        for i, line in enumerate(acts):
            w = line.split()
            variants = [acts[:i] + acts[i + 1:],                           # line deleted
                        acts[:i] + [line, line] + acts[i + 1:]]            # line duplicated
            if w[0].startswith('p') and len(w) >= 2:
                other = f'p{(int(w[0][1:]) % n) + 1}'
                variants.append(acts[:i] + [' '.join([other] + w[1:])] + acts[i + 1:])        # wrong player
                variants.append(acts[:i] + [f'{w[0]} cbr {tot + 1}'] + acts[i + 1:])           # amount above all chips
                variants.append(acts[:i] + [f'{w[0]} xx'] + acts[i + 1:])                      # unknown verb
            if w[:2] == ['d', 'db']:
                variants.append(acts[:i] + [line + 'AsAh'] + acts[i + 1:])                     # surplus board cards
            for va in variants:
                ctx.counters['corruptions_tried'] += 1
                d = data_fields(hh)
                d['actions'] = va
                try:
                    h3 = H(**d)
                    yielded = [a for _, a in h3.state_actions if a is not None]
                except (ValueError, KeyError, IndexError):
                    ctx.counters['corruptions_reported_as_error'] += 1
                    continue
                except Exception as exc:
                    sig = exc_signature(exc)
                    ctx.counters['corruptions_other_exception:' + sig[0]] += 1
                    continue
                if yielded != va:
                    ctx.violation('silent-truncation', f'corrupted actions {va}: iteration ended without error after applying only {yielded}',
                                  sig=('C16', 'silent-truncation'))
                else:
                    ctx.counters['corruptions_still_applicable'] += 1


def cfgs(tier):
    th = tier == 'thorough'
    out = []
    for code in CODES:
        heavy = code in STUD or code in ('F2L3D', 'FB')
        for mode in ('cash', 'tournament'):
            for autos in (PHH_AUTOS, 'ALL', 'NONE'):
                if autos == 'NONE':
                    k = 2 if th and not heavy else 1
                else:
                    k = 3 if th and not heavy else 2
                out.append(({'code': code, 'mode': mode, 'autos': autos, 'trim': True, 'antes': 0, 'stacks': (4, 7)}, k, 'plain'))
        # short-stacked ante, trimming on and off
        for trim in (True, False):
            out.append(({'code': code, 'mode': 'cash', 'autos': PHH_AUTOS, 'trim': trim, 'antes': 3, 'stacks': (2, 9, 6)},
                        2 if th else 1, 'short-ante'))
        out.append(({'code': code, 'mode': 'cash', 'autos': PHH_AUTOS, 'trim': True, 'antes': 0, 'stacks': (5, 9), 'chips': 'decimal'},
                    2, 'decimal'))
        out.append(({'code': code, 'mode': 'cash', 'autos': PHH_AUTOS, 'trim': True, 'antes': 0, 'stacks': (4, 7)}, 2, 'unknown-cards'))
        out.append(({'code': code, 'mode': 'cash', 'autos': PHH_AUTOS, 'trim': True, 'antes': (0, 2, 0), 'stacks': (4, 7, 5)},
                    2 if th else 1, 'three-handed'))
    return out


def jobs(tier, seed):
    out = []
    for cfg, k, kind in cfgs(tier):
        out.append({'family': f'roundtrip-{kind}', 'kind': 'explore', 'cfg': cfg, 'dev_bound': k, 'sub': kind})
    out.append({'family': 'commentary', 'kind': 'commentary'})
    out.append({'family': 'user-fields', 'kind': 'userfields'})
    out.append({'family': 'files', 'kind': 'files', 'tier': tier})
    out.sort(key=lambda j: -j.get('dev_bound', 0))
    if seed:
        r = seed % len(out)
        out = out[r:] + out[:r]
    return out


def run_explore(job):
    cfg = job['cfg']
    env.set_warnings('ignore')
    game = mk_game(cfg)
    cv = conv_of(cfg.get('chips'))
    stacks = tuple(cv(s) for s in cfg['stacks'])
    sub = job['sub']
    o = mk_opts(raises='minmax', show=((None, True, False, 'facedown') if cfg['mode'] == 'cash' else (None, True, False)) if sub != 'unknown-cards' else (None,),
                deal='mix' if sub == 'unknown-cards' else 'default',
                discards=('none', 'first', 'all') if cfg['code'] in ('N2L1D', 'F2L3D', 'FB') else ('none',),
                runouts=(None,), show_players=(None, False) if sub != 'unknown-cards' else False)
    mon = RoundTrip(cfg, game, check_corruptions=(sub == 'plain' and cfg['autos'] == PHH_AUTOS and cfg['mode'] == 'cash'))
    stats, ctx = explore(cfg, monitors=[mon], menu_opts=o, dev_bound=job['dev_bound'], merge=False,
                         build=lambda c: game(stacks, len(stacks)), sample_every=1)
    for v in ctx.violations:
        v['family'] = job['family']
        v['warn'] = 'ignore'
    return {'family': job['family'], 'stats': stats, 'violations': ctx.violations, 'counters': dict(ctx.counters),
            'validated': ctx.counters.get('replays_compared', 0),
            'samples': [{'cfg': cfg, 'events': s} for s in ctx.samples[:1]], 'dev_bound': job['dev_bound'],
            'merge': mon.streams, 'errors': {'|'.join(k): n for k, n in ctx.errors.items()}}


# ---------------------------------------------------------------- commentary and user fields
COMMENTS = ['x', 'a b', "it's", 'a # b', 'p1 f', '100']


def V(oracle, detail, cfg, shape=''):
    return {'oracle': oracle, 'detail': detail, 'cfg': cfg, 'events': [], 'sig': ('C16', oracle, shape)}


def run_commentary(job):
    """each commentary string on each player-action kind (and as a stand-alone comment): survives save/load/replay"""
    H = HH()
    env.set_warnings('ignore')
    viol = []
    c = Counter()
    scripts = {
        'NT': [('deal_hole',), ('deal_hole',), ('deal_hole',), ('deal_hole',), ('complete_bet_or_raise_to', 4), ('check_or_call',), ('deal_board',),
               ('check_or_call',), ('check_or_call',), ('deal_board',), ('check_or_call',), ('complete_bet_or_raise_to', 2), ('fold',)],
        'F7S': [('deal_hole',)] * 6 + [('post_bring_in',), ('check_or_call',), ('deal_hole',), ('deal_hole',), ('check_or_call',), ('fold',)],
        'N2L1D': [('deal_hole',)] * 10 + [('complete_bet_or_raise_to', 4), ('check_or_call',), ('stand_pat_or_discard', None), ('stand_pat_or_discard', 'first'),
                  ('deal_hole',), ('check_or_call',), ('check_or_call',), ('show_or_muck_hole_cards', True), ('show_or_muck_hole_cards', True)],
    }
    for code, script in scripts.items():
        cfg = {'code': code, 'mode': 'cash', 'autos': PHH_AUTOS, 'trim': True, 'antes': 0, 'stacks': (20, 20)}
        game = mk_game(cfg)
        for pos, ev in enumerate(script):
            if ev[0] in ('deal_hole', 'deal_board'):
                continue
            for cm in COMMENTS + [None]:
                st = game((20, 20), 2)
                for k, e in enumerate(script):
                    kw = {'commentary': cm} if k == pos and cm is not None else {}
                    if e[0] == 'stand_pat_or_discard':
                        a = () if e[1] is None else (repr(st.hole_cards[st.stander_pat_or_discarder_index][0]),)
                        st.stand_pat_or_discard(*a, **kw)
                    else:
                        getattr(st, e[0])(*e[1:], **kw)
                    if k == pos and cm is not None:
                        st.no_operate(commentary=cm)      # a stand-alone comment line as well
                c['commentary_cases'] += 1
                cfgd = {'code': code, 'position': pos, 'operation': ev[0], 'commentary': cm}
                try:
                    hh = H.from_game_state(game, st)
                    t = hh.dumps()
                    hh2 = H.loads(t)
                    fin = list(hh2)[-1]
                except Exception as exc:
                    viol.append(V('commentary-raised', f'{cfgd}: {type(exc).__name__}: {exc}', cfgd, ev[0]))
                    continue
                if hh2.dumps() != t or hh2.actions != hh.actions:
                    viol.append(V('commentary-dump', f'{cfgd}: text changed by save/load', cfgd, ev[0]))
                want = [(type(o).__name__, o.commentary) for o in st.operations
                        if type(o).__name__ in ('Folding', 'CheckingOrCalling', 'CompletionBettingOrRaisingTo', 'BringInPosting',
                                                'StandingPatOrDiscarding', 'HoleCardsShowingOrMucking', 'NoOperation')]
                got = [(type(o).__name__, o.commentary) for o in fin.operations
                       if type(o).__name__ in ('Folding', 'CheckingOrCalling', 'CompletionBettingOrRaisingTo', 'BringInPosting',
                                               'StandingPatOrDiscarding', 'HoleCardsShowingOrMucking', 'NoOperation')]
                if want != got or norm(st.operations) != norm(fin.operations) or list(fin.stacks) != list(st.stacks):
                    viol.append(V('commentary-replay', f'{cfgd}: played {want}, replay {got}', cfgd, ev[0]))
    return {'family': job['family'], 'stats': {}, 'violations': viol[:20], 'counters': dict(c), 'evaluations': c['commentary_cases'],
            'validated': c['commentary_cases'], 'samples': [{'commentary': "it's", 'on': 'p1 f', 'written': "p1 f # it's"}], 'merge': set()}


def run_userfields(job):
    H = HH()
    env.set_warnings('ignore')
    viol = []
    c = Counter()
    cfg = {'code': 'NT', 'mode': 'cash', 'autos': 'ALL', 'trim': True, 'antes': 0, 'stacks': (20, 20)}
    game = mk_game(cfg)
    st = game((20, 20), 2)
    st.complete_bet_or_raise_to(6)
    st.fold()
    keys = ['_k', 'k', 'two words', '_a_b', 'K9', 'a\tb', ' lead', 'trail ']
    values = ['x', 'a b', "it's", '', 'a # b', 0, 7, -3, Decimal('1.50'), True, False, [1, 2], ['a', 'b'], [], {'a': 1, 'b c': 'd'},
              [[1], [2, 3]], datetime.time(12, 30, 5), [Decimal('0.25'), 3]]
    opt = {'author': "it's me", 'event': 'a b', 'year': 2024, 'month': 2, 'day': 29, 'time': datetime.time(1, 2, 3), 'hand': 7,
           'players': ['A B', "O'Neil"], 'seats': [3, 1], 'finishing_stacks': [17, 23], 'currency': 'USD', 'time_banks': [30, 30],
           'table': 'T 1', 'level': 3, 'seat_count': 9, 'winnings': [0, 3], 'time_limit': 15, 'currency_symbol': '$', 'time_zone': 'UTC'}
    cases = [({k: v}, {}) for k in keys for v in values]
    cases += [({k1: values[i], k2: values[-1 - i]}, {}) for i, k1 in enumerate(keys) for k2 in keys if k1 != k2]
    cases += [({}, {k: v}) for k, v in opt.items()] + [({'_u': 1}, dict(opt))]
    for user, optional in cases:
        c['user_field_cases'] += 1
        cfgd = {'user': repr(user), 'optional': repr(optional)}
        try:
            hh = H.from_game_state(game, st, **optional, **user)
            t = hh.dumps()
            hh2 = H.loads(t)
            t2 = hh2.dumps()
        except Exception as exc:
            viol.append(V('user-field-raised', f'{cfgd}: {type(exc).__name__}: {exc}', cfgd, type(exc).__name__))
            continue
        if t2 != t:
            viol.append(V('user-field-dump', f'{cfgd}: saving again gives a different text:\n{t}\n---\n{t2}', cfgd))
        if hh2.user_defined_fields != hh.user_defined_fields or data_fields(hh2) != data_fields(hh):
            viol.append(V('user-field-value', f'{cfgd}: loaded {hh2.user_defined_fields!r} / fields differ', cfgd))
        for k, v in user.items():
            if hh2.user_defined_fields.get(k) != v or type(hh2.user_defined_fields.get(k)) is not type(v):
                viol.append(V('user-field-value', f'{cfgd}: {k!r} loaded as {hh2.user_defined_fields.get(k)!r}', cfgd, type(v).__name__))
        for k, v in optional.items():
            if getattr(hh2, k) != v:
                viol.append(V('optional-field-value', f'{cfgd}: {k} loaded as {getattr(hh2, k)!r}', cfgd, k))
        fin = list(hh2)[-1]
        if list(fin.stacks) != list(st.stacks):
            viol.append(V('user-field-replay', f'{cfgd}: replay stacks {fin.stacks}', cfgd))
    # several hands in one file
    hs = [H.from_game_state(game, st, _i=i) for i in range(3)]
    back = list(H.loads_all(H.dumps_all(hs)))
    c['user_field_cases'] += 1
    if [data_fields(h) for h in back] != [data_fields(h) for h in hs]:
        viol.append(V('dumps_all', 'three hands written with dumps_all are not read back equal', {}))
    return {'family': job['family'], 'stats': {}, 'violations': viol[:20], 'counters': dict(c), 'evaluations': c['user_field_cases'],
            'validated': c['user_field_cases'], 'samples': [{'user_field': {'two words': "it's"}}], 'merge': set()}


def run_files(job):
    """several different hands in one file and the file-pointer forms: every ordered selection of 1-3 hands out of one hand per
    variant code (different variants, player counts, chip types, user fields) is written with dumps_all / dump_all and read
    back with loads_all / load_all; each hand also goes through dump / load; what is read back must be, hand by hand, what
    loads(dumps()) gives, and replay to the played stacks"""
    import io
    from itertools import permutations
    H = HH()
    env.set_warnings('ignore')
    viol = []
    c = Counter()
    hands = []
    for k, code in enumerate(CODES):
        cfg = {'code': code, 'mode': 'cash' if k % 2 else 'tournament', 'autos': 'ALL', 'trim': True, 'antes': 0,
               'stacks': (20, 20, 20)[:2 + k % 2], 'chips': 'decimal' if k % 3 == 2 else None}
        game = mk_game(cfg)
        st = build(cfg)
        guard = 0
        while st.status and guard < 200:
            guard += 1
            if st.can_post_bring_in():
                st.post_bring_in()
            elif st.can_stand_pat_or_discard():
                st.stand_pat_or_discard()
            elif guard == 3 and st.can_complete_bet_or_raise_to():
                st.complete_bet_or_raise_to()
            elif st.can_check_or_call():
                st.check_or_call()
            else:
                break
        hands.append((code, H.from_game_state(game, st, hand=k + 1, _note=f'hand {k}' if k % 2 else k), list(st.stacks)))

    def same(a, b):
        return data_fields(a) == data_fields(b) and a.user_defined_fields == b.user_defined_fields

    for code, hh, stacks in hands:
        c['file_cases'] += 1
        buf = io.BytesIO()
        try:
            hh.dump(buf)
            buf.seek(0)
            back = H.load(buf)
            ref = H.loads(hh.dumps())
        except Exception as exc:
            viol.append(V('file-raised', f'{code}: dump/load: {type(exc).__name__}: {exc}', {'code': code}, type(exc).__name__))
            continue
        if not same(back, ref) or buf.getvalue().decode() != hh.dumps():
            viol.append(V('dump-load', f'{code}: dump(fp)/load(fp) differs from dumps()/loads()', {'code': code}))
        if [float(x) for x in list(back)[-1].stacks] != [float(x) for x in stacks]:
            viol.append(V('file-replay', f'{code}: replay of the loaded hand ends {list(back)[-1].stacks}, played {stacks}', {'code': code}))
    sel = [q for r in (1, 2, 3) for q in permutations(range(len(hands)), r)]
    if job.get('tier') != 'thorough':
        sel = [q for q in sel if len(q) < 3 or q[0] < q[1] < q[2]]
    # long files: all hands in both orders, and twice over (22 hands)
    allq = tuple(range(len(hands)))
    sel += [allq, allq[::-1], allq + allq[::-1]]
    for q in sel:
        c['file_cases'] += 1
        hs = [hands[i][1] for i in q]
        cfgd = {'codes': [hands[i][0] for i in q]}
        try:
            text = H.dumps_all(hs)
            back = list(H.loads_all(text))
            buf = io.BytesIO()
            H.dump_all(hs, buf)
            buf.seek(0)
            back2 = list(H.load_all(buf))
        except Exception as exc:
            viol.append(V('file-raised', f'{cfgd}: {type(exc).__name__}: {exc}', cfgd, type(exc).__name__))
            continue
        refs = [H.loads(h.dumps()) for h in hs]
        for name, got in (('loads_all', back), ('load_all', back2)):
            if len(got) != len(refs) or not all(same(a, b) for a, b in zip(got, refs)):
                viol.append(V('all-hands', f'{cfgd}: {name} returned {len(got)} hands / hands differ from the ones written '
                              f'(hand numbers {[g.hand for g in got]})', cfgd, name))
                break
        else:
            for i, g in zip(q, back):
                if [float(x) for x in list(g)[-1].stacks] != [float(x) for x in hands[i][2]]:
                    viol.append(V('file-replay', f'{cfgd}: hand {hands[i][0]} replays to {list(g)[-1].stacks}, played {hands[i][2]}', cfgd))
    return {'family': job['family'], 'stats': {}, 'violations': viol[:20], 'counters': dict(c), 'evaluations': c['file_cases'],
            'validated': c['file_cases'], 'samples': [{'codes': [h[0] for h in hands[:3]]}], 'merge': set()}


def run_job(job):
    if job['kind'] == 'files':
        return run_files(job)
    if job['kind'] == 'explore':
        return run_explore(job)
    if job['kind'] == 'commentary':
        return run_commentary(job)
    return run_userfields(job)


def finalize(merges, tier):
    allc = set()
    for m in merges:
        allc |= m
    return [], Counter({'distinct_histories_round_tripped': len(allc)}), {'distinct': len(allc)}


def sanity(agg, counters, fam, tier):
    return [f'{k} == 0' for k in ('terminal_histories', 'partial_histories', 'replays_compared', 'action_lines_replayed',
                                  'corruptions_tried', 'corruptions_reported_as_error', 'histories_with_omitted_steps', 'commentary_cases', 'user_field_cases')
            if not counters.get(k)]


def bounds(tier):
    th = tier == 'thorough'
    return (f'11 variants, 2 players stacks (4,7) (+ short-ante (2,9,6) with antes 3, Decimal chips (2.5,4.5), unknown-card dealing'
            f'{", 3-handed BB-ante" if th else ""}); k <= {2 if th else "1-2"} deviations, tree not merged; commentary: 6 strings x every '
            f'player action of 3 scripted hands; user fields: 5 keys x 18 values + pairs + 19 optional fields; corruptions: delete / '
            f'duplicate / wrong player / oversize amount / unknown verb / surplus board cards at every line of every terminal history')


def replay(doc):
    from ..alphabet import apply
    env.set_warnings('ignore')
    cfg = doc['cfg']
    print('oracle:', doc.get('oracle'), '|', str(doc.get('detail'))[:600])
    if not isinstance(cfg, dict) or 'code' not in cfg:
        print('(grid family: re-run ./check C16)')
        return 1
    game = mk_game(cfg)
    st = build(cfg)
    for ev in doc['events']:
        apply(st, tuple(ev))
    H = HH()
    hh = H.from_game_state(game, st)
    t = hh.dumps()
    print(t)
    hh2 = H.loads(t)
    try:
        fin = list(hh2)[-1]
    except Exception as exc:
        print('replay raised', type(exc).__name__, exc)
        return 1
    print('played : status', st.status, 'stacks', st.stacks, '\nreplay : status', fin.status, 'stacks', fin.stacks)
    print('rebuilt game ante_trimming_status', hh2.create_game().ante_trimming_status, 'played', game.ante_trimming_status)
    same = norm(st.operations) == norm(fin.operations) and list(st.stacks) == list(fin.stacks)
    return 0 if same and hh2.create_game().ante_trimming_status == game.ante_trimming_status else 1
