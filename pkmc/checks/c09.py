"""C09 - automation is only a convenience (automated state || manual twin)."""
from .. import sx, env, canon, configs as C
from ..alphabet import apply
from ..explore import exc_signature, error_shape

PROPERTY = 'C09'
LEVEL = 'model_checking'
RULE = ('all 2^11 automation subsets x configurations x every sequence of player decisions and non-automated manual '
        'steps: the automated state A and a twin M built with no automation (same deck) are stepped together; after '
        'every event M performs each step whose automation is in the subset with default arguments as soon as it is '
        'available; the appended operation records and every run-time field must be equal')
ASSUMPTIONS = ['paths on which the automated state itself raises belong to C07 and are skipped here']

PRIO = [C.A.ANTE_POSTING, C.A.BET_COLLECTION, C.A.BLIND_OR_STRADDLE_POSTING, C.A.CARD_BURNING, C.A.HOLE_DEALING,
        C.A.BOARD_DEALING, C.A.RUNOUT_COUNT_SELECTION, C.A.HOLE_CARDS_SHOWING_OR_MUCKING, C.A.HAND_KILLING,
        C.A.CHIPS_PUSHING, C.A.CHIPS_PULLING]
FIELDS = [n for n in canon.RUN_FIELDS if n != 'operations']


def drain(tw, autos):
    n = 0
    while True:
        for a in PRIO:
            if a in autos:
                op = C.AUTO_OP[a]
                if getattr(tw, 'can_' + op)():
                    getattr(tw, op)()
                    n += 1
                    break
        else:
            return n
        if n > 2000:
            raise RuntimeError('drain does not terminate')


def compare(a, m, na, nm):
    """-> None or description of the first difference (new records, then fields)."""
    ra, rm = a.operations[na:], m.operations[nm:]
    if ra != rm:
        for k in range(max(len(ra), len(rm))):
            x = ra[k] if k < len(ra) else None
            y = rm[k] if k < len(rm) else None
            if x != y:
                return f'record #{na + k}: automated {x} vs manual twin {y}'
    for n in FIELDS:
        x, y = getattr(a, n), getattr(m, n)
        if canon.freeze(x) != canon.freeze(y):
            return f'field {n}: automated {x} vs manual twin {y}'
    return None


class TwinMonitor:
    name = 'twin'

    def __init__(self, prop='C09'):
        self.prop = prop

    def init(self, st, ctx):
        # the automation set that was *requested* (not what the state says it keeps): the twin performs those steps by hand
        autos = self.requested = tuple(C.autos_of(ctx.cfg.get('autos')))
        m = C.build(ctx.cfg, autos=())
        try:
            drain(m, autos)
        except Exception as exc:
            sig = exc_signature(exc)
            ctx.violation('twin-raised-at-start', f'manual twin raised {type(exc).__name__}: {exc} at {sig[1]}', path=[],
                          sig=(self.prop, 'twin-raised') + sig + (error_shape(ctx.cfg, []),))
            return None
        d = compare(st, m, 0, 0)
        ctx.counters['pairs_compared'] += 1
        if d:
            ctx.violation('differs-at-start', d, path=[], sig=(self.prop, 'differs', d.split(':')[0].split(' ')[0]))
            return None
        return m

    def on_edge(self, pre, m, ev, post, rec, ctx):
        if m is None:
            return None
        path = list(ctx.path) + [ev]
        m2 = canon.clone(m)
        na, nm = len(pre.operations), len(m.operations)
        try:
            apply(m2, ev)
            drained = drain(m2, self.requested)
        except Exception as exc:
            sig = exc_signature(exc)
            shape = error_shape(ctx.cfg, path)
            if 'after-muck' in shape:
                ctx.counters['twin_exceptions_after_muck_not_judged'] += 1
                return None
            ctx.violation('twin-raised', f'{ev}: automated run succeeded, manual twin raised {type(exc).__name__}: {exc} at {sig[1]}: {sig[2]}',
                          path=path, sig=(self.prop, 'twin-raised') + sig + (shape,))
            return None
        ctx.counters['pairs_compared'] += 1
        if drained:
            ctx.counters['pairs_with_automated_steps'] += 1
        d = compare(post, m2, na, nm)
        if d:
            ctx.violation('automated-vs-manual', f'after {ev}: {d}', path=path,
                          sig=(self.prop, 'differs', d.split(':')[0].split(' ')[0] + ('-' + d.split(':')[0].split(' ')[1] if d.startswith('field') else '')))
            return None
        return m2


def base_cfgs(tier):
    th = tier == 'thorough'
    cfgs = [
        ('NT-hu-cash', C.nt((2, 3), mode='cash'), {'runouts': (None, 2)}),
        ('NT-3', C.nt((3, 5, 2)), {'raises': 'minmax'}),
        ('tiny-hilo-2boards-cash', C.custom((3, 2, 4), C.TWO_STREET_BURN, deck='KUHN9', hand_types=('KuhnAny', 'JQLow'),
                                            antes=1, blinds=(1, 2), boards=2, mode='cash'), {'runouts': (None, 2)}),
    ]
    if th:
        cfgs += [
            ('stud-hu', C.stud((3, 6)), {}),
            ('draw-hu', C.nt((3, 5), game='NoLimitDeuceToSevenLowballSingleDraw'), {'raises': 'minmax', 'discards': ('none', 'first')}),
            ('PLO-2boards', C.nt((3, 2), game='PotLimitOmahaHoldem', boards=2, mode='cash'), {'runouts': (None, 2)}),
            ('FT-3', C.fl((5, 3, 4)), {}),
        ]
    return cfgs


def reduced_masks():
    """128 subsets: every subset of the six automations that interleave with decisions (antes, collection, burning, hole and board
    dealing, showing) x the remaining five (blinds, run-out choice, killing, pushing, pulling) all on / all off"""
    A = [a.name for a in C.AUTOS]
    core = ['ANTE_POSTING', 'BET_COLLECTION', 'CARD_BURNING', 'HOLE_DEALING', 'BOARD_DEALING', 'HOLE_CARDS_SHOWING_OR_MUCKING']
    rest = [a for a in A if a not in core]
    out = []
    for k in range(64):
        sub = [c for i, c in enumerate(core) if k >> i & 1]
        for r in ([], rest):
            out.append(sum(1 << A.index(a) for a in sub + r))
    return out


def quick_extra_cfgs():
    """draw and stud games in the quick tier, on the reduced automation lattice"""
    return [
        ('draw-hu-reduced-lattice', C.nt((3, 5), game='NoLimitDeuceToSevenLowballSingleDraw'), {'raises': 'minmax', 'discards': ('none', 'first')}),
        ('triple-draw-hu-reduced-lattice', C.fl((3, 6), game='FixedLimitDeuceToSevenLowballTripleDraw'), {'discards': ('none', 'first'), 'fold': False}),
        ('stud-hu-reduced-lattice', C.stud((3, 6)), {}),
        # everybody all-in on the forced bets: no decision before the run-out, the streets follow each other inside one cascade
        ('all-in-on-the-blinds-reduced-lattice', C.nt((1, 5)), {}),
        ('all-in-on-the-blinds-reduced-lattice', C.nt((5, 1)), {}),
        ('all-in-on-the-blinds-reduced-lattice', C.nt((2, 1, 5), antes=1), {}),
        ('all-in-on-the-blinds-reduced-lattice', C.nt((1, 5), mode='cash'), {'runouts': (None, 2)}),
        # forced bets that only some seats owe: a big-blind ante heads-up (seat 0 alone), a single seat's ante, a button ante,
        # a straddle and a late-seat post
        ('forced-bet-layouts-reduced-lattice', C.nt((5, 6), antes={1: 2}), {'raises': 'min'}),
        ('forced-bet-layouts-reduced-lattice', C.nt((5, 6, 7), antes=(2, 0, 0)), {'raises': 'min'}),
        ('forced-bet-layouts-reduced-lattice', C.nt((5, 6, 7), antes={1: 2}), {'raises': 'min'}),
        ('forced-bet-layouts-reduced-lattice', C.nt((5, 6, 7), antes={-1: 2}, blinds=(1, 2, 4)), {'raises': 'min'}),
        ('forced-bet-layouts-reduced-lattice', C.nt((5, 6, 7), antes=(0, 1, 1), blinds=(0, 2, -2)), {'raises': 'min'}),
    ]


def jobs(tier, seed):
    out = []
    for fam, cfg, o in base_cfgs(tier):
        for mask in range(2048):
            c = dict(cfg)
            c['autos'] = mask
            oo = {'players': True, 'show': (None, True)}
            oo.update(o)
            out.append({'family': fam, 'cfg': c, 'opts': oo, 'state_cap': 200000, 'time_cap': 300})
    # eight-handed stud to the river: the deck runs out and seventh street is dealt as one community card by BOARD_DEALING
    for game in ('FixedLimitSevenCardStud', 'FixedLimitRazz'):
        for mask in reduced_masks():
            c = C.stud((30,) * 8, game=game)
            c['autos'] = mask
            out.append({'family': 'stud-8-handed-reduced-lattice', 'cfg': c, 'opts': {'players': False, 'show': (None,), 'fold': False, 'raises': 'none'},
                        'state_cap': 200000, 'time_cap': 400, 'dev_bound': 0})
    for fam, cfg, o in quick_extra_cfgs():
        for mask in reduced_masks():
            c = dict(cfg)
            c['autos'] = mask
            oo = {'players': False, 'show': (None,)}
            oo.update(o)
            out.append({'family': fam, 'cfg': c, 'opts': oo, 'state_cap': 200000, 'time_cap': 400, 'dev_bound': 2})
    return out


def run_job(job):
    def build_failed(exc, ctx):
        # a state that cannot even be created with these automations, while the un-automated one can: the automated hand does
        # not go through the steps the manual one does
        from ..explore import exc_signature
        try:
            C.build(dict(job['cfg'], autos='NONE'))
        except Exception:
            raise RuntimeError(f'configuration builds neither automated nor manual: {C.describe(job["cfg"])}') from exc
        sig = exc_signature(exc)
        ctx.violation('automated-construction-raised', f'creating the state with automations {job["cfg"]["autos"]} raised '
                      f'{type(exc).__name__}: {exc} at {sig[1]}: {sig[2]}; without automation it is created and played by hand',
                      path=[], sig=('C09', 'construction-raised') + sig)
    r, ctx = sx.run(job, [TwinMonitor('C09')], validated='pairs_compared', on_build_error=build_failed)
    return r


def sanity(agg, counters, fam, tier):
    return [] if counters.get('pairs_with_automated_steps') else ['no pair ever had an automated step to mirror']


def bounds(tier):
    return ('all 2048 automation subsets x {%s}; 128-subset reduced lattice (k<=2 deviations) x {%s}' %
            (', '.join(f for f, _, _ in base_cfgs(tier)), ', '.join(f for f, _, _ in quick_extra_cfgs())))
