"""C14 - multiple run-outs and multiple boards are offered and dealt as documented."""
from collections import Counter

from .. import sx, env, configs as C
from ..explore import ErrorsMonitor

PROPERTY = 'C14'
LEVEL = 'model_checking'
RULE = ('every history of tiny-stack hold\'em configurations (cash and tournament, 1-2 starting boards, 2-3 players) in '
        'which the all-in is completed on each possible street, with every preference in {None,1,2,3} per player, every '
        'selection order (explicit player) interleaved with showing; a reference run-out model is compared at every '
        'state (who is offered the choice) and at every terminal state (consensus, board count, completeness, shared '
        'prefix, no duplicate card, even split of every pot over the boards)')
ASSUMPTIONS = ['hold\'em-like street lists (board cards only after the first street)']


from ..refs.pots import ref_divmod as P_ref_divmod


class RunoutMonitor:
    name = 'runouts'

    def __init__(self, prop='C14'):
        self.prop = prop

    def _v(self, ctx, what, detail, path=None):
        ctx.violation(what, detail, path=path, sig=(self.prop, what))

    # the preferences expressed so far (who, what, in which order) are part of the explored state: two histories that leave
    # the engine's fields equal but differ in what was said must not be merged, the verdict depends on what was said
    def init(self, st, ctx):
        return self._fold(st, ())

    def key(self, ms):
        return ms

    @staticmethod
    def _fold(st, ms):
        sel = [(o.player_index, o.runout_count) for o in st.operations if type(o).__name__ == 'RunoutCountSelection']
        if ms and ms[0] == 'closed':
            return ms if len(sel) == ms[2] else ('closed', ms[1], len(sel), 'more')
        seq = tuple(sel)
        chosen = {i for i, _ in seq}
        if seq and all(i in chosen for i in range(st.player_count) if st.statuses[i]):
            # everybody has spoken: from here on only the outcome of the consensus rule matters, not who said what when
            said = {c for _, c in seq if c is not None}
            return ('closed', None if not said else said.pop() if len(said) == 1 else 1, len(seq))
        return seq

    def on_edge(self, pre, ms, ev, post, rec, ctx):
        new = self._fold(post, ms)
        if new and new[0] == 'closed' and not (ms and ms[0] == 'closed'):
            said = [o.runout_count for o in post.operations if type(o).__name__ == 'RunoutCountSelection' and o.runout_count is not None]
            if len(said) >= 3 and len(set(said)) > 1:
                ctx.counters['selections_closed_with_3+_preferences_in_disagreement'] += 1
        return new

    @staticmethod
    def facts(st):
        """From the log: live set, preferences expressed, board cards dealt before the first selection/all-in showdown."""
        n = st.player_count
        live = [True] * n
        prefs = {}
        order = []
        board_ops_before = []
        seen_all_in_showdown = False
        for o in st.operations:
            nm = type(o).__name__
            if nm == 'Folding':
                live[o.player_index] = False
            elif nm == 'RunoutCountSelection':
                if o.player_index in prefs:
                    prefs[o.player_index] = ('twice', prefs[o.player_index], o.runout_count)
                else:
                    prefs[o.player_index] = o.runout_count
                order.append(o.player_index)
        return live, prefs, order

    def on_state(self, st, ms, menu, ctx):
        if not st.status or st.street_index is None:
            return
        n = st.player_count
        if not (st.showdown_indices or any(st.runout_count_selector_statuses)):
            return
        live, prefs, order = self.facts(st)
        cash = st.mode.value != 'Tournament'
        with_chips = [i for i in range(n) if st.statuses[i] and st.stacks[i] > 0]
        all_in = len(with_chips) <= 1 and sum(st.statuses) > 1
        to_come = any(s.board_dealing_count for s in st.streets[st.street_index + 1:])
        expected = set()
        if cash and all_in and to_come:
            livers = [i for i in range(n) if st.statuses[i]]
            # the choice is offered once, at the first all-in showdown
            if not self._selection_closed(st, livers, prefs):
                expected = set(livers) - set(prefs)
        offered = {i for i in range(n) if st.can_select_runout_count(None, i)}
        ctx.counters['offer_states_compared'] += 1
        if expected:
            ctx.counters['offer_states_nonempty'] += 1
        if offered != expected:
            self._v(ctx, 'offer', f'run-out choice offered to {sorted(offered)}, reference {sorted(expected)}; mode {st.mode.value} '
                    f'stacks {st.stacks} live {st.statuses} street {st.street_index} preferences so far {prefs}')
        for i in offered:
            for c in (1, 2, 3, None):
                if not st.can_select_runout_count(c, i):
                    self._v(ctx, 'offer-count-refused', f'player {i} is offered the choice but count {c} is refused')

    @staticmethod
    def _selection_closed(st, livers, prefs):
        """The selection round is over once every live player has chosen, or dealing has resumed after it."""
        if all(i in prefs for i in livers):
            return True
        names = [type(o).__name__ for o in st.operations]
        last_bet = max([k for k, nm in enumerate(names) if nm in ('Folding', 'CheckingOrCalling', 'CompletionBettingOrRaisingTo',
                                                                   'BringInPosting', 'BetCollection', 'BlindOrStraddlePosting')] or [-1])
        return _closed_by_dealing(names[last_bet + 1:])

    def on_terminal(self, st, ms, ctx):
        n = st.player_count
        live, prefs, order = self.facts(st)
        b = st.starting_board_count
        cash = st.mode.value != 'Tournament'
        for i, p in prefs.items():
            if isinstance(p, tuple):
                self._v(ctx, 'offered-twice', f'player {i} selected twice: {p}')
                return
        if prefs and not cash:
            self._v(ctx, 'offered-in-tournament', f'selections {prefs} in tournament mode')
        expressed = [p for p in prefs.values() if p is not None]
        if not expressed:
            r = 1
            want_rc = None
        elif len(set(expressed)) == 1:
            r = expressed[0]
            want_rc = r
        else:
            r = 1
            want_rc = 1
        if sum(st.statuses) < 2:
            return
        ctx.counters['showdown_terminals_checked'] += 1
        if ms and ms[0] == 'closed' and len(ms) == 3 and ms[1] != want_rc:
            raise RuntimeError(f'harness: the tracked consensus {ms} differs from the log {prefs}')
        if prefs:
            ctx.counters['terminals_with_selection'] += 1
            if st.runout_count != want_rc:
                self._v(ctx, 'consensus', f'preferences {prefs} (order {order}) -> runout_count {st.runout_count}, reference {want_rc}')
        if r > 1:
            ctx.counters['terminals_with_multiple_runouts'] += 1
        if st.board_count != b * r:
            self._v(ctx, 'board-count', f'board_count {st.board_count}, reference {b}*{r}; preferences {prefs}')
            return
        total = sum(s.board_dealing_count for s in st.streets)
        boards = [[repr(c) for c in st.get_board_cards(k)] for k in range(st.board_count)]
        for k, bd in enumerate(boards):
            if len(bd) != total:
                self._v(ctx, 'board-incomplete', f'board {k} has {len(bd)} of {total} cards: {boards}')
                return
        # cards dealt to each starting board before the run-outs were chosen
        names = [type(o).__name__ for o in st.operations]
        first_sel = names.index('RunoutCountSelection') if 'RunoutCountSelection' in names else len(names)
        pre = [[] for _ in range(b)]
        k = 0
        per_street = Counter()
        for o in st.operations[:first_sel]:
            if type(o).__name__ == 'BoardDealing':
                pre[k % b] += [repr(c) for c in o.cards]
                k += 1
        # physical rows: b cards per position dealt before the choice, b*r afterwards - no extra run-out
        for k, row in enumerate(st.board_cards):
            want = b if (k < len(pre[0]) and r > 1) else b * r
            if len(row) != want:
                self._v(ctx, 'cards-dealt-per-position', f'board position {k} holds {len(row)} cards, reference {want} '
                        f'(b={b}, r={r}, {len(pre[0])} positions dealt before the choice): {[[repr(c) for c in x] for x in st.board_cards]}')
                break
        if r > 1:
            for i, bd in enumerate(boards):
                j = i // r
                if bd[:len(pre[j])] != pre[j]:
                    self._v(ctx, 'shared-prefix', f'board {i} (run-out of starting board {j}) starts {bd[:len(pre[j])]}, '
                            f'cards dealt before the all-in were {pre[j]}; boards {boards}')
            fresh = [c for i, bd in enumerate(boards) for c in bd[len(pre[i // r]):]]
        else:
            fresh = [c for bd in boards for c in bd]
        shared = [c for j in range(b) for c in pre[j]] if r > 1 else []
        holes = [repr(c) for h in st.hole_cards for c in h if c]
        allc = fresh + shared + holes
        dup = [c for c, m in Counter(allc).items() if m > 1]
        if dup:
            self._v(ctx, 'duplicate-card', f'{dup} appear twice among boards {boards} and hole cards {holes}')
        # even split of each pot over the boards
        pots = {}
        for o in st.operations:
            if type(o).__name__ == 'ChipsPushing':
                pots.setdefault(o.pot_index, Counter())[o.board_index] += sum(o.amounts)
        for p, per in pots.items():
            amt = sum(per.values())
            q, rem = C.DIVMODS.get(ctx.cfg.get('divmod'), P_ref_divmod)(amt, b * r)
            for k in range(b * r):
                want = q + (rem if k == 0 else 0)
                if per.get(k, 0) != want:
                    self._v(ctx, 'pot-split-over-boards', f'pot {p} of {amt}: board {k} got {per.get(k, 0)}, reference {want} ({dict(per)})')
                    break
            if rem:
                ctx.counters['odd_pot_over_boards'] += 1


def _closed_by_dealing(tail):
    """tail: operation names since the last betting/collection op.  The selection round is closed once
    dealing resumed after it (a board card or burn after the showdown began)."""
    return any(nm in ('BoardDealing', 'CardBurning') for nm in tail)


def _j(family, cfg, **kw):
    j = {'family': family, 'cfg': cfg}
    j.update(kw)
    return j


SEMI = ['ANTE_POSTING', 'BET_COLLECTION', 'BLIND_OR_STRADDLE_POSTING', 'CARD_BURNING', 'HOLE_DEALING', 'BOARD_DEALING',
        'HAND_KILLING', 'CHIPS_PUSHING', 'CHIPS_PULLING']
MANUAL_DEAL = ['ANTE_POSTING', 'BET_COLLECTION', 'BLIND_OR_STRADDLE_POSTING', 'HOLE_DEALING', 'HAND_KILLING',
               'CHIPS_PUSHING', 'CHIPS_PULLING']


def jobs(tier, seed):
    th = tier == 'thorough'
    out = []
    o = {'raises': 'minmax', 'runouts': (None, 1, 2, 3), 'runout_players': True, 'show': (None,)}
    for mode in ('cash', 'tournament'):
        for boards in (1, 2):
            for stacks in [(4, 4), (3, 6), (5, 3)] + ([(8, 8), (6, 4)] if th else []):
                out.append(_j(f'NT-2p-{mode}-{boards}b', C.nt(stacks, mode=mode, boards=boards, autos=SEMI), opts=o))
            for stacks in [(4, 6, 5), (3, 3, 7)] + ([(5, 5, 5), (6, 4, 8)] if th else []):
                out.append(_j(f'holdem-like-3p-{mode}-{boards}b', C.custom(stacks, C.HOLDEM_LIKE, deck='STANDARD', hand_types=('HighCardAny',),
                                                                           antes=0, blinds=(1, 2), mode=mode, boards=boards, autos=SEMI),
                              opts=o, dev_bound=4 if not th else 6))
            if th:
                out.append(_j(f'NT-3p-{mode}-{boards}b', C.nt((4, 6, 5), mode=mode, boards=boards, autos=SEMI), opts=o, dev_bound=6))
            out.append(_j(f'PO-2p-{mode}-{boards}b', C.nt((4, 5), mode=mode, boards=boards, autos=SEMI, game='PotLimitOmahaHoldem'),
                          opts=o))
        if mode == 'cash':
            # a caller-supplied split rule (shares in whole pairs of chips) governs the split over boards too
            for boards in (1, 2):
                for stacks in [(5, 5), (4, 7)]:
                    out.append(_j(f'NT-2p-cash-{boards}b-caller-supplied-divmod', C.nt(stacks, mode=mode, boards=boards, autos=SEMI, divmod='pairs'),
                                  opts=o))
        out.append(_j(f'NT-2p-{mode}-manual-dealing', C.nt((4, 4), mode=mode, autos=MANUAL_DEAL), opts=o, dev_bound=6))
        out.append(_j(f'NT-2p-{mode}-all-auto', C.nt((3, 5), mode=mode, autos='ALL'), opts=o))
        out.append(_j(f'NS-2p-{mode}', C.nt((4, 5), mode=mode, antes=1, blinds=(0, 2), autos=SEMI, game='NoLimitShortDeckHoldem'), opts=o))
    # a street list whose last street deals no board card (a final down card): board cards are still to come on the flop and
    # turn, not on the last street
    FINAL_DOWN = C.HOLDEM_LIKE[:3] + [(True, (False,), 0, False, 'POSITION', 2, None)]
    MID_NO_BOARD = [C.HOLDEM_LIKE[0], (True, (False,), 0, False, 'POSITION', 2, None), C.HOLDEM_LIKE[1], C.HOLDEM_LIKE[2]]
    for name, streets in (('final-street-without-board', FINAL_DOWN), ('middle-street-without-board', MID_NO_BOARD)):
        for mode in ('cash', 'tournament'):
            for stacks in [(4, 4), (3, 6), (6, 9)]:
                out.append(_j(f'custom-{name}-{mode}', C.custom(stacks, streets, deck='STANDARD', hand_types=('HighCardAny',), antes=0,
                                                                blinds=(1, 2), mode=mode, autos=SEMI), opts=o, dev_bound=5))
    # hi-lo over several boards / run-outs on a tiny deck: how each board's share is split between hand types and winners is
    # judged by the layered pot reference (refs/pots.py) for every deal
    from itertools import permutations
    WIDE = ['As', 'Ks', 'Qs', 'Js', '2s', '2h']
    THREE = [(False, (False,), 0, False, 'POSITION', 1, None), (True, (), 1, False, 'POSITION', 1, None)]
    for boards in (1, 2):
        plans = [list(p) + [c for c in WIDE if c not in p] for p in permutations(WIDE, 2)]
        for plan in plans[::1 if th else 2]:
            out.append(_j(f'tiny-hilo-2p-cash-{boards}b', C.custom((3, 4), THREE, deck=WIDE, hand_types=('HighCardAny', 'JQLow'), antes=1,
                                                                   mode='cash', boards=boards, autos=SEMI, plan=plan),
                          opts={'raises': 'minmax', 'runouts': (None, 2, 3) if boards == 1 else (None, 2), 'show': (None,)}, pots=True))
    for j in out:
        j.setdefault('state_cap', 400000 if th else 60000)
        j.setdefault('time_cap', 1800 if th else 400)
    return out


def run_job(job):
    mons = [RunoutMonitor('C14'), ErrorsMonitor('C14')]
    if job.get('pots'):
        from .c02 import PotsMonitor
        mons.append(PotsMonitor('C14'))
    r, ctx = sx.run(job, mons, validated='offer_states_compared')
    return r


def sanity(agg, counters, fam, tier):
    return [f'{k} == 0' for k in ('offer_states_nonempty', 'terminals_with_multiple_runouts', 'odd_pot_over_boards',
                                  'showdown_terminals_checked', 'selections_closed_with_3+_preferences_in_disagreement') if not counters.get(k)]


def bounds(tier):
    return 'NT/PO/NS, 2-3 players, stacks <= 8, cash and tournament, 1-2 starting boards, preferences {None,1,2,3}, any order'
