"""C07 - every hand runs to completion through the documented phases."""
from .. import sx, env, configs as C
from ..explore import explore, exc_signature, Ctx
from ..refs.phases import PhaseMonitor
from ..alphabet import opts as mk_opts

PROPERTY = 'C07'
LEVEL = 'model_checking'
RULE = ('all 2^11 automation subsets x small configurations x every sequence of available operations (any player '
        'order for manual steps, show and muck); per state: exactly-one-phase; per logged operation: documented '
        'phase relation; per job: acyclic state graph, longest path <= structural bound, no deadlock, no exception')
ASSUMPTIONS = ['admissible configurations only (deck large enough, hand types formable, shown hands known)',
               'the explicit-index "non-standard showdown" after the hand is documented and not counted as a phase']

SHOW = (None, True, False)


def base_cfgs(tier):
    th = tier == 'thorough'
    cfgs = [
        ('NT-hu-blinds-all-in', C.nt((2, 1)), {}),
        ('NT-hu', C.nt((3, 4), mode='cash'), {'runouts': (None, 2)}),
        ('NT-3', C.nt((3, 5, 2)), {'raises': 'minmax'}),
    ]
    if th:
        cfgs += [
            ('stud-hu-short-ante', C.stud((1, 4), antes=2, trim=False), {}),
            ('stud-hu', C.stud((3, 6)), {}),
            ('draw-hu', C.nt((3, 5), game='NoLimitDeuceToSevenLowballSingleDraw'),
             {'raises': 'minmax', 'discards': ('none', 'first')}),
            ('PLO-2boards', C.nt((3, 2), game='PotLimitOmahaHoldem', boards=2, mode='cash'), {'runouts': (None, 2)}),
            ('NT-3-cash', C.nt((2, 4, 3), mode='cash', antes=1), {'raises': 'minmax', 'runouts': (None, 2)}),
        ]
    return cfgs


def jobs(tier, seed):
    out = []
    th = tier == 'thorough'
    for fam, cfg, o in base_cfgs(tier):
        for mask in range(2048):
            c = dict(cfg)
            c['autos'] = mask
            oo = {'players': True, 'show': SHOW, 'probe': True, 'post_hand_show': True}
            oo.update(o)
            out.append({'family': fam, 'cfg': c, 'opts': oo, 'state_cap': 300000, 'time_cap': 900})
    # larger configurations under a few automation tuples (incl. the ones the suite uses)
    few = ['NONE', 'ALL',
           ['ANTE_POSTING', 'BET_COLLECTION', 'BLIND_OR_STRADDLE_POSTING', 'HOLE_CARDS_SHOWING_OR_MUCKING',
            'HAND_KILLING', 'CHIPS_PUSHING', 'CHIPS_PULLING'],
           ['HOLE_DEALING', 'BOARD_DEALING'], ['CARD_BURNING', 'BOARD_DEALING', 'RUNOUT_COUNT_SELECTION']]
    big = [('NT-3-deep', C.nt((4, 6, 5)), {'raises': 'minmax'}),
           ('FT-3', C.fl((5, 9, 3)), {}),
           ('stud-3', C.stud((3, 5, 9)), {}),
           ('razz-2', C.stud((2, 7), game='FixedLimitRazz'), {}),
           ('badugi-2', C.fl((3, 5), game='FixedLimitBadugi'), {'discards': ('none', 'first')}),
           ('two-street-hilo-2boards', C.custom((3, 5, 4), C.TWO_STREET_BURN, deck='KUHN9', hand_types=('KuhnAny', 'JQLow'),
                                             boards=2, mode='cash'), {'runouts': (None, 2), 'fold_unfaced': True}),
           ('NT-3-cash-warned-folds', C.nt((3, 6, 6), mode='cash'), {'raises': 'minmax', 'fold_unfaced': True})]
    # forced-bet grid: every seat short / deep against antes and blinds (a legal step must never fail part-way in the
    # ante / blind phases, whoever is short)
    from itertools import product
    for n in (2, 3):
        for stacks in product((1, 2, 3, 5), repeat=n):
            for antes in (0, 1, {1: 2}):
                for au in ('NONE', 'ALL', ['ANTE_POSTING', 'BLIND_OR_STRADDLE_POSTING', 'BET_COLLECTION']):
                    c = C.nt(stacks, antes=antes)
                    c['autos'] = au
                    out.append({'family': f'forced-bet-grid-{n}p', 'cfg': c, 'opts': {'show': (None,), 'raises': 'minmax', 'probe': True},
                                'dev_bound': 1, 'state_cap': 60000, 'time_cap': 120})
    for stacks in [(2, 9), (9, 2), (2, 2), (2, 9, 9), (9, 2, 9), (9, 9, 2), (2, 2, 2), (1, 2, 9)]:
        for game in ('FixedLimitSevenCardStud', 'FixedLimitRazz'):
            for au in ('NONE', 'ALL', ['ANTE_POSTING', 'BET_COLLECTION', 'CARD_BURNING', 'HOLE_DEALING']):
                c = C.stud(stacks, game=game, antes=1, bring_in=2, small=4, big=8)
                c['autos'] = au
                out.append({'family': 'stud-partial-bring-in', 'cfg': c, 'opts': {'show': (None,), 'probe': True}, 'dev_bound': 1,
                            'state_cap': 60000, 'time_cap': 300})
    for fam, cfg, o in big:
        for au in few:
            c = dict(cfg)
            c['autos'] = au
            oo = {'show': SHOW, 'players': au == 'NONE' and th, 'probe': True}
            oo.update(o)
            out.append({'family': fam, 'cfg': c, 'opts': oo, 'dev_bound': 3 if not th else 5,
                        'state_cap': 400000 if th else 60000, 'time_cap': 1800 if th else 400})
    return out


def structural_bound(st):
    n = st.player_count
    chips = sum(st.starting_stacks)
    b = st.starting_board_count * 3
    per_street = 0
    for s in st.streets:
        per_street += 1 + n * (len(s.hole_dealing_statuses) + 6) + b * max(1, s.board_dealing_count) + n + n * (chips + 2) + 1
    return 2 * n + 1 + 3 * per_street + 4 * n + n * b * len(st.hand_types) * n + n


def longest_path_and_cycle(nkeys, edges):
    """Kahn's algorithm: returns (is_acyclic, longest path length)."""
    indeg = [0] * nkeys
    succ = [[] for _ in range(nkeys)]
    for a, b in edges:
        succ[a].append(b)
        indeg[b] += 1
    order = [i for i in range(nkeys) if indeg[i] == 0]
    dist = [0] * nkeys
    seen = 0
    i = 0
    while i < len(order):
        u = order[i]
        i += 1
        seen += 1
        for v in succ[u]:
            if dist[u] + 1 > dist[v]:
                dist[v] = dist[u] + 1
            indeg[v] -= 1
            if indeg[v] == 0:
                order.append(v)
    return seen == nkeys, max(dist) if dist else 0


def run_job(job):
    mon = PhaseMonitor('C07')

    def on_build_error(exc, ctx):
        from ..explore import error_shape
        sig = exc_signature(exc) + (error_shape(ctx.cfg, []),)
        ctx.violation('constructor-raised', f'constructor raised {type(exc).__name__}: {exc} at {sig[1]}: {sig[2]}',
                      path=[], sig=('C07', 'raised') + sig)

    r, ctx = sx.run(job, [mon], validated='edges_checked', on_build_error=on_build_error, record_edges=True)
    if r['stats'].get('built'):
        ok, longest = longest_path_and_cycle(ctx.n_keys, ctx.edges)
        st = C.build(job['cfg'], autos=())
        bound = structural_bound(st)
        r['counters']['longest_path_max'] = 0
        r['longest'] = longest
        if not ok:
            r['violations'].append({'oracle': 'cycle', 'detail': 'the merged state graph has a cycle: operations that make no progress',
                                    'cfg': job['cfg'], 'events': [], 'sig': 'C07|cycle'})
        if longest > bound:
            r['violations'].append({'oracle': 'termination-bound', 'detail': f'longest history {longest} > structural bound {bound}',
                                    'cfg': job['cfg'], 'events': [], 'sig': 'C07|termination-bound'})
        r['counters']['graphs_checked_acyclic'] = 1
    return r


def sanity(agg, counters, fam, tier):
    msgs = []
    for p in 'ACBDTSKPL':
        if not counters.get('phase_' + p):
            msgs.append(f'phase {p} was never the active phase in any explored state')
    return msgs


def bounds(tier):
    return 'all 2048 automation subsets x {%s}; larger configurations under 5 automation tuples with deviation bound' % \
        ', '.join(f for f, _, _ in base_cfgs(tier))
