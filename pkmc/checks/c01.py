"""C01 - chips are conserved (invariant after every logged operation)."""
from itertools import product

from .. import sx, configs as C
from ..refs.chips import ChipsMonitor

PROPERTY = 'C01'
LEVEL = 'model_checking'
RULE = ('every operation sequence of the real State per configuration (BFS, canonical-state '
        'dedup); invariant evaluated after every logged operation incl. automation cascades')
ASSUMPTIONS = [
    'chip magnitudes are small (stacks <= 9 units); rules compare/add amounts only',
    'math.inf stacks excluded (statement is about chips the players sat down with)',
    'float/Decimal compared within 1e-9 relative tolerance',
]

MIXED_AUTOS = [
    ['ANTE_POSTING', 'BET_COLLECTION', 'BLIND_OR_STRADDLE_POSTING', 'CARD_BURNING',
     'HOLE_DEALING', 'BOARD_DEALING', 'HAND_KILLING', 'CHIPS_PUSHING', 'CHIPS_PULLING'],
    ['ANTE_POSTING', 'BET_COLLECTION', 'BLIND_OR_STRADDLE_POSTING',
     'HOLE_CARDS_SHOWING_OR_MUCKING', 'HAND_KILLING', 'CHIPS_PUSHING', 'CHIPS_PULLING'],
    ['BET_COLLECTION', 'HOLE_DEALING', 'BOARD_DEALING', 'CARD_BURNING'],
]

TWO_ST = C.TWO_STREET
# hi-lo tiny game: two hand types so that pots are split over types too
HILO = ('KuhnAny', 'JQLow')


NO_RUNOUT_AUTO = ['ANTE_POSTING', 'BET_COLLECTION', 'BLIND_OR_STRADDLE_POSTING', 'CARD_BURNING', 'HOLE_DEALING', 'BOARD_DEALING',
                  'HOLE_CARDS_SHOWING_OR_MUCKING', 'HAND_KILLING', 'CHIPS_PUSHING', 'CHIPS_PULLING']


def _j(family, cfg, **kw):
    j = {'family': family, 'cfg': cfg}
    j.update(kw)
    return j


def jobs(tier, seed):
    out = []
    thorough = tier == 'thorough'
    grid = (1, 2, 3, 5, 8)
    # --- F1: two-street custom NL/PL game, full product layouts x stacks -----
    layouts = []
    for antes, trim in [(0, True), (1, True), (1, False), ({1: 2}, True), ({1: 2}, False),
                        ({-1: 2}, True), ({-1: 2}, False), (2, False)]:
        for blinds in [(1, 2), (2, 2), 0]:
            if not antes and not blinds:
                continue
            layouts.append((antes, trim, blinds))
    for n in (2, 3):
        vecs = list(product(grid if not (thorough and n == 2) else (1, 2, 3, 4, 5, 6, 8), repeat=n))
        for (antes, trim, blinds), stacks in product(layouts, vecs):
            for structure in (('NL', 'PL') if thorough else ('NL',)):
                out.append(_j('two-street', C.custom(
                    stacks, TWO_ST, deck='KUHN9', hand_types=('KuhnAny',), structure=structure,
                    antes=antes, blinds=blinds, trim=trim)))
    # hands that can end without any pot: a dead small blind (0, 2) or a bring-in without antes - when everybody folds to
    # the only forced bet, the chips on the table are the survivor's own bet and nothing else
    for stacks in product((1, 2, 3, 5), repeat=3):
        for antes in (0, 1):
            out.append(_j('dead-small-blind', C.custom(stacks, TWO_ST, deck='KUHN9', hand_types=('KuhnAny',), antes=antes, blinds=(0, 2))))
    for stacks in [(3, 5), (2, 4, 6), (1, 3, 2)]:
        for game in ('FixedLimitSevenCardStud', 'FixedLimitRazz'):
            for au in ('ALL', 'NONE'):
                out.append(_j('bring-in-without-antes', C.stud(stacks, game=game, antes=0, autos=au), dev_bound=2))
    # 3-player straddle / button straddle / post layouts
    for blinds in [(1, 2, 4), {0: 1, 1: 2, -1: 4}, (1, 2, -2), (0, 2, 2)]:
        for stacks in [(3, 5, 8), (1, 2, 3), (8, 3, 2), (2, 2, 9), (5, 5, 5), (2, 8, 1)]:
            for antes, trim in [(0, True), (1, False)]:
                out.append(_j('two-street-straddle', C.custom(
                    stacks, TWO_ST, deck='KUHN9', hand_types=('KuhnAny',),
                    antes=antes, blinds=blinds, trim=trim)))
    # hi-lo + double board + rake + divmod + chip types (pairwise around default)
    for stacks in [(3, 5), (2, 3, 5), (5, 3, 8), (3, 3, 3)] + ([(1, 4, 4), (5, 8, 2), (2, 3, 5, 8)] if thorough else []):
        for boards in (1, 2):
            for ht in (('KuhnAny',), HILO):
                base = dict(deck='KUHN9', hand_types=ht, antes=1, blinds=(1, 2), boards=boards)
                out.append(_j('hilo-boards', C.custom(stacks, TWO_ST, **base)))
                for rake in [('pct', 1, 10, None, False), ('pct', 1, 2, 2, False),
                             ('pct', 1, 4, None, True), ('min', 1)]:
                    out.append(_j('rake', C.custom(stacks, TWO_ST, rake=rake, **base)))
                for dm in ('last', 'pairs'):
                    out.append(_j('divmod', C.custom(stacks, TWO_ST, divmod=dm, **base)))
                for chips in ('fraction', 'float', 'decimal'):
                    out.append(_j('chips-' + chips, C.custom(stacks, TWO_ST, chips=chips, **base)))
                    out.append(_j('chips-' + chips + '-rake', C.custom(
                        stacks, TWO_ST, chips=chips, rake=('pct', 1, 4, None, False), **base)))
                # run-out choice left to the players (it is decided as None = one run-out when automated)
                out.append(_j('cash-runouts', C.custom(stacks, TWO_ST, mode='cash', autos=NO_RUNOUT_AUTO, **base),
                              opts={'runouts': (None, 1, 2, 3)}))
                for au in (['NONE'] + MIXED_AUTOS if (thorough or boards == 1) else ['NONE']):
                    out.append(_j('automation', C.custom(stacks, TWO_ST, autos=au, **base)))
    # every deal (by rank: who ties whom on which board / half) of the tiny hi-lo and double-board games: the default
    # deck order gives one tie pattern only, and where the odd chips of a chopped sub-pot go depends on who chops it
    for stacks in [(3, 3, 3), (2, 3, 5), (3, 4, 4)] + ([(5, 5, 5), (2, 4, 7), (3, 3)] if thorough else []):
        for boards in (1, 2):
            for ht in (HILO, ('KuhnAny',)):
                if ht != HILO and boards == 1:
                    continue
                for ranks in product('JQK', repeat=len(stacks) + boards):
                    if max(ranks.count(r) for r in 'JQK') > 3:
                        continue
                    left = {r: list('shd') for r in 'JQK'}
                    plan = [r + left[r].pop(0) for r in ranks]
                    out.append(_j('all-deals', C.custom(stacks, TWO_ST, deck='KUHN9', hand_types=ht, antes=1, blinds=(1, 2),
                                                        boards=boards, plan=plan), opts={'raises': 'minmax'}))
    # --- F2: the 12 predefined variants ---------------------------------------
    NTs = [(2, 3), (3, 5, 8), (1, 5, 3), (5, 2, 5)] + ([(8, 8, 8), (2, 3, 5, 8)] if thorough else [])
    for stacks in NTs:
        for antes, trim in [(0, True), ({1: 2}, False), (1, True)]:
            out.append(_j('NT', C.nt(stacks, antes=antes, trim=trim)))
            out.append(_j('NT-cash', C.nt(stacks, antes=antes, trim=trim, mode='cash'),
                          opts={'raises': 'minmax'}))
        out.append(_j('NS', C.nt(stacks, antes=1, game='NoLimitShortDeckHoldem', blinds=(0, 2)),
                      opts={'raises': 'minmax'}))
        out.append(_j('PO', C.nt(stacks, game='PotLimitOmahaHoldem'), opts={'raises': 'minmax'}))
        out.append(_j('PO-2boards', C.nt(stacks, game='PotLimitOmahaHoldem', boards=2),
                      opts={'raises': 'minmax'}))
        out.append(_j('FT', C.fl(stacks)))
        out.append(_j('FO8', C.fl(stacks, game='FixedLimitOmahaHoldemHighLowSplitEightOrBetter'),
                      opts={'raises': 'minmax'}))
        out.append(_j('NR', C.nt(stacks, game='NoLimitRoyalHoldem'), opts={'raises': 'minmax'}))
    studs = [(2, 5), (3, 5, 9), (1, 4, 7), (9, 2, 4)] + ([(5, 5, 5), (2, 3, 5, 8)] if thorough else [])
    for stacks in studs:
        for game in ('FixedLimitSevenCardStud', 'FixedLimitSevenCardStudHighLowSplitEightOrBetter', 'FixedLimitRazz'):
            for trim in (True, False):
                out.append(_j(game, C.stud(stacks, game=game, trim=trim), dev_bound=3 if not thorough else 4))
    # a bring-in larger than one chip, so that it can be posted in part (stack between the ante and ante + bring-in)
    for stacks in [(2, 9), (9, 2), (2, 2), (2, 9, 9), (9, 2, 9), (9, 9, 2), (2, 2, 2), (3, 2, 9)]:
        for game in ('FixedLimitSevenCardStud', 'FixedLimitRazz'):
            out.append(_j('stud-partial-bring-in', C.stud(stacks, game=game, antes=1, bring_in=2, small=4, big=8), dev_bound=2))
    draws = [(3, 5), (3, 5, 8), (2, 6, 4)]
    for stacks in draws:
        out.append(_j('ND27', C.nt(stacks, game='NoLimitDeuceToSevenLowballSingleDraw'),
                      opts={'raises': 'minmax', 'discards': ('none', 'first', 'all')},
                      dev_bound=2 if not thorough else 3))
        for game in ('FixedLimitDeuceToSevenLowballTripleDraw', 'FixedLimitBadugi'):
            out.append(_j(game, C.fl(stacks, game=game), opts={'discards': ('none', 'two', 'all')},
                          dev_bound=2 if not thorough else 3))
    for j in out:
        if j['family'] in ('NT', 'NT-cash', 'hilo-boards', 'two-street-straddle', 'automation', 'rake', 'FixedLimitRazz', 'PO-2boards'):
            j.setdefault('opts', {})['show'] = (None, True, False)   # mucking is a legal operation too
        j.setdefault('state_cap', 400000 if thorough else 60000)
        j.setdefault('time_cap', 1800 if thorough else 400)
    return out


def run_job(job):
    r, ctx = sx.run(job, [ChipsMonitor('C01')], validated='updates')
    return r


def sanity(agg, counters, fam, tier):
    msgs = []
    for k in ('final_states_with_3+_boards', 'final_states_of_split_games'):
        if counters.get(k, 0) == 0:
            msgs.append(f'{k} == 0')
    if counters.get('multi_pot_updates', 0) == 0:
        msgs.append('no state with side pots was reached')
    if counters.get('raked_updates', 0) == 0:
        msgs.append('no raked pot was reached')
    if counters.get('final_states_checked', 0) == 0:
        msgs.append('no terminal state was checked')
    return msgs


def bounds(tier):
    return ('2-3 players (4 in a few families), stacks from {1,2,3,5,8}; full product of forced-bet layouts x '
            'stack vectors on the two-street template; 12 predefined variants on curated vectors; '
            'stud/draw games deviation-bounded (k in evidence per family)')
