"""C11 - each predefined variant plays the game its name and documentation say."""
from itertools import product

from .. import sx, env, configs as C
from ..explore import ErrorsMonitor
from ..refs import variants as V
from ..refs.betting import BettingMonitor, Spec

PROPERTY = 'C11'
LEVEL = 'model_checking'
RULE = ('static: 12 variant classes + 11 PHH codes x parameter grid compared field by field with an independent variant '
        'table (deck as a set, hand types, per street burn/hole facing/board/draw/opening/bet size/cap, structure); '
        'dynamic: every history (k deviations) of each variant explored in product with the betting automaton instantiated '
        'from the table (so a mis-wired structure shows as amounts/raise counts the table forbids); split games must push '
        'two halves when a low qualifies (scripted decks)')
ASSUMPTIONS = ['the table is written from the common rules of the games and the documentation, not from games.py']


def params_for(cls_name, small, big, n, code_path=False):
    code, deck, hts, structure, streets, bets, cap, forced = V.VARIANTS[cls_name]
    p = {'ante_trimming_status': True, 'raw_starting_stacks': tuple([30 + i for i in range(n)]), 'player_count': n}
    if forced == 'bring_in':
        p['raw_antes'] = 1
        p['bring_in'] = 1
    else:
        p['raw_antes'] = 0
        p['raw_blinds_or_straddles'] = (1, 2)
    if 'small' in bets:
        p['small_bet'] = small
        p['big_bet'] = big
    else:
        p['min_bet'] = small
    return p


def static_check(cls_name, small, big, n, mode, via_code):
    """-> list of (what, detail)."""
    code, deck, hts, structure, streets, bets, cap, forced = V.VARIANTS[cls_name]
    p = params_for(cls_name, small, big, n)
    out = []
    if via_code:
        kw = dict(variant=code, antes=[p['raw_antes']] * n if isinstance(p['raw_antes'], int) else list(p['raw_antes']),
                  starting_stacks=list(p['raw_starting_stacks']), actions=[])
        if forced == 'bring_in':
            kw['bring_in'] = p['bring_in']
        else:
            kw['blinds_or_straddles'] = [1, 2] + [0] * (n - 2)
        for k in ('small_bet', 'big_bet', 'min_bet'):
            if k in p:
                kw[k] = p[k]
        hh = env.pokerkit.HandHistory(**kw)
        st = hh.create_state()
        if type(hh.create_game()).__name__ != cls_name:
            out.append(('code-class', f'PHH code {code} creates {type(hh.create_game()).__name__}, expected {cls_name}'))
    else:
        p2 = dict(p)
        p2['mode'] = mode
        st = C.build({'game': cls_name, 'autos': 'NONE', 'p': p2})
    if sorted(repr(c) for c in st.deck) != sorted(deck):
        out.append(('deck', f'deck has {len(st.deck)} cards, table says {len(deck)}'))
    if [h.__name__ for h in st.hand_types] != hts:
        out.append(('hand-types', f'{[h.__name__ for h in st.hand_types]} vs table {hts}'))
    if st.betting_structure.value != V.STRUCT_NAME[structure]:
        out.append(('structure', f'{st.betting_structure.value} vs table {V.STRUCT_NAME[structure]}'))
    if len(st.streets) != len(streets):
        out.append(('street-count', f'{len(st.streets)} vs {len(streets)}'))
    else:
        for k, (s, t, b) in enumerate(zip(st.streets, streets, bets)):
            want_min = {'small': small, 'big': big, 'min': small}[b]
            got = (s.card_burning_status, tuple(s.hole_dealing_statuses), s.board_dealing_count, s.draw_status, s.opening.name)
            if got != t:
                out.append(('street', f'street {k}: (burn, hole facing, board, draw, opening) = {got}, table {t}'))
            if s.min_completion_betting_or_raising_amount != want_min:
                out.append(('bet-size', f'street {k}: minimum bet {s.min_completion_betting_or_raising_amount}, table {want_min} ({b})'))
            if s.max_completion_betting_or_raising_count != cap:
                out.append(('cap', f'street {k}: cap {s.max_completion_betting_or_raising_count}, table {cap}'))
    if (st.bring_in > 0) != (forced == 'bring_in'):
        out.append(('forced-bet', f'bring_in={st.bring_in} blinds={st.blinds_or_straddles}, table says {forced}'))
    return out


# scripted decks for split games: P0 has the nut low and a weak high, P1 a strong high and no low
SPLIT = {
    'FixedLimitOmahaHoldemHighLowSplitEightOrBetter': ['As', 'Ks', '2s', 'Kh', '3d', 'Qs', '4d', 'Qh',   # holes round-robin
                                                       '9c', '5c', '8d', 'Kc', '9d', '7h', '9h', 'Jc'],   # burn,flop,burn,turn,burn,river
    'FixedLimitSevenCardStudHighLowSplitEightOrBetter': ['As', 'Ks', '2s', 'Kh', '3d', 'Kd',             # third street round-robin
                                                         '9c', '4d', 'Qs', '9d', '5c', 'Qh', '9h', '7h', 'Jc', '9s', '8d', 'Tc'],
}


def _j(family, cfg=None, **kw):
    j = {'family': family, 'cfg': cfg}
    j.update(kw)
    return j


def jobs(tier, seed):
    th = tier == 'thorough'
    out = []
    grid = [(2, 4), (3, 6), (2, 3), (5, 10)] if th else [(2, 4), (3, 6)]
    for cls_name in V.VARIANTS:
        out.append(_j('static', kind='static', cls=cls_name, grid=grid))
    for cls_name, spec in V.VARIANTS.items():
        code, deck, hts, structure, streets, bets, cap, forced = spec
        for stacks in [(5, 9, 30), (4, 6, 8)] + ([(30, 30), (12, 40, 7)] if th else []):
            n = len(stacks)
            p = params_for(cls_name, 2, 4, n)
            p['raw_starting_stacks'] = stacks
            cfg = {'game': cls_name, 'autos': 'ALL', 'p': p}
            o = {'raises': 'all' if structure == 'FL' else 'minmax'}
            if any(s[3] for s in streets):
                o['discards'] = ('none', 'first')
            kk = (4 if structure == 'FL' else 3) + (1 if th else 0)
            out.append(_j(f'dynamic-{code or cls_name}', cfg, kind='dynamic', cls=cls_name, opts=o, dev_bound=kk))
        # many raises: deep stacks so that the cap (or its absence) is reached
        p = params_for(cls_name, 2, 4, 2)
        p['raw_starting_stacks'] = (60, 60)
        out.append(_j(f'raise-war-{code or cls_name}', {'game': cls_name, 'autos': 'ALL', 'p': p}, kind='dynamic', cls=cls_name,
                      opts={'raises': 'min', 'fold': False, 'discards': ('none',)}, dev_bound=6 if not th else 7))
        # three-handed raise wars with one short stack: an all-in for less than a full raise inside a capped round
        if structure == 'FL':
            for stacks in [(60, 60, 3), (60, 60, 5), (5, 60, 60)] + ([(60, 3, 60), (60, 60, 7)] if th else []):
                p = params_for(cls_name, 2, 4, 3)
                p['raw_starting_stacks'] = stacks
                out.append(_j(f'raise-war-short-stack-{code or cls_name}', {'game': cls_name, 'autos': 'ALL', 'p': p}, kind='dynamic',
                              cls=cls_name, opts={'raises': 'min', 'fold': False, 'discards': ('none',)}, dev_bound=6 if not th else 7))
    for cls_name, plan in SPLIT.items():
        out.append(_j('split-two-halves', kind='split', cls=cls_name, plan=plan))
    # split and double-board showdowns with a side pot: every seating of hand templates (a low that only one player makes, two
    # high hands each best on a different board, a hand that makes nothing) x every seat being the short stack; the pots
    # are judged by the layered reference award with the independent evaluator (a half exists only among a pot's contenders)
    from .. import dealplan as D
    from itertools import permutations
    OMAHA = {'low': ['As', '2s', '6d', '7d'], 'hiA': ['Qs', 'Qh', 'Js', 'Th'], 'hiB': ['Ks', 'Kd', '9h', '9c'],
             'none': ['Td', 'Tc', '5s', '5h']}
    BOARDS = [['3h', '4d', '8c', 'Jc', 'Qd'], ['9s', '9d', 'Ts', 'Jh', 'Kh']]
    STUD = {'low': ['As', '2s', '3d', '4d', '6h', 'Kc', 'Qc'], 'hiA': ['Qs', 'Qh', 'Qd', '9c', '9d', 'Jh', 'Th'],
            'hiB': ['Ks', 'Kd', 'Kh', '8c', '8d', '7s', '5c'], 'none': ['Jd', 'Tc', '9s', '7h', '5s', '4c', '2h']}
    for cls_name, tpl, nbs in [('FixedLimitOmahaHoldemHighLowSplitEightOrBetter', OMAHA, (2, 1)),
                               ('PotLimitOmahaHoldem', OMAHA, (2,)),
                               ('FixedLimitSevenCardStudHighLowSplitEightOrBetter', STUD, (1,))]:
        for nb in nbs:
            for short in range(3):
                p = params_for(cls_name, 2, 4, 3)
                p['raw_starting_stacks'] = tuple(2 if i == short else 20 for i in range(3))
                if nb > 1:
                    p['starting_board_count'] = nb
                cfg = {'game': cls_name, 'autos': 'ALL', 'p': p}
                dest = D.destinations(cfg)
                for names in permutations(sorted(tpl), 3):
                    if not th and 'none' in names and nb == 1 and names.index('none') != short:
                        continue
                    place = {('hole', i): tpl[names[i]] for i in range(3)}
                    if tpl is OMAHA:
                        for b in range(nb):
                            place[('board', b)] = BOARDS[b]
                    out.append(_j(f'showdown-side-pot-{V.VARIANTS[cls_name][0] or cls_name}-{nb}b', dict(cfg, plan=D.plan(dest, place)),
                                  kind='showdown', cls=cls_name, opts={'raises': 'min', 'fold': False}, dev_bound=2))
    # eight-handed stud: seventh street with and without a fold (own down card from deck + reserve vs one community card)
    for cls_name, spec in V.VARIANTS.items():
        if spec[7] == 'bring_in':
            p = params_for(cls_name, 2, 4, 8)
            p['raw_starting_stacks'] = (60,) * 8
            out.append(_j(f'stud-8-handed-{spec[0] or cls_name}', {'game': cls_name, 'autos': 'ALL', 'p': p}, kind='dynamic', cls=cls_name,
                          opts={'raises': 'none', 'fold': True}, dev_bound=1))
    for cls_name, spec in V.VARIANTS.items():
        if spec[7] == 'bring_in':
            out.append(_j('stud-opening-rule', kind='bring-in', cls=cls_name))
    for j in out:
        j.setdefault('state_cap', 400000 if th else 60000)
        j.setdefault('time_cap', 1800 if th else 400)
    return out


def run_static(job):
    viol = []
    n_eval = 0
    cls_name = job['cls']
    code = V.VARIANTS[cls_name][0]
    samples = []
    for (small, big), n, mode, via in product(job['grid'], (2, 3, 4), ('tournament', 'cash'), (False, True)):
        if via and code is None:
            continue
        n_eval += 1
        try:
            bad = static_check(cls_name, small, big, n, mode, via)
        except Exception as exc:
            bad = [('static-raised', f'{type(exc).__name__}: {exc}')]
        for what, detail in bad:
            viol.append({'oracle': what, 'detail': f'{cls_name} (small={small}, big={big}, n={n}, {mode}, via PHH code={via}): {detail}',
                         'cfg': {'game': cls_name}, 'events': [], 'sig': ('C11', what, cls_name)})
        if not samples:
            samples.append({'class': cls_name, 'code': code, 'small': small, 'big': big, 'players': n})
    return {'family': 'static', 'stats': {'states': n_eval, 'transitions': n_eval}, 'violations': viol[:10],
            'validated': n_eval, 'counters': {'static_configurations_compared': n_eval}, 'samples': samples}


class SplitNote:
    pass


def run_split(job):
    cls_name = job['cls']
    env.set_warnings('ignore')
    p = params_for(cls_name, 2, 4, 2)
    p['raw_starting_stacks'] = (40, 40)
    cfg = {'game': cls_name, 'autos': 'ALL', 'p': p, 'plan': job['plan']}
    st = C.build(cfg)
    steps = 0
    while st.status and steps < 200:
        steps += 1
        if st.can_post_bring_in():
            st.post_bring_in()
        elif st.can_check_or_call():
            st.check_or_call()
        else:
            break
    viol = []
    pushes = [o for o in st.operations if type(o).__name__ == 'ChipsPushing']
    types = sorted({o.hand_type_index for o in pushes})
    detail = f'{cls_name}: holes {[list(map(repr, h)) for h in st.hole_cards]} board {[repr(c) for c in st.get_board_cards(0)]} pushes {[(o.hand_type_index, o.amounts) for o in pushes]}'
    if st.status or types != [0, 1]:
        viol.append({'oracle': 'split-halves', 'detail': 'expected one push per hand type (high half, low half): ' + detail,
                     'cfg': cfg, 'events': [], 'sig': ('C11', 'split-halves', cls_name)})
    else:
        amts = [sum(o.amounts) for o in pushes]
        if abs(amts[0] - amts[1]) > 1 or [max(range(2), key=lambda i: o.amounts[i]) for o in pushes] != [1, 0]:
            viol.append({'oracle': 'split-halves', 'detail': 'halves or winners wrong: ' + detail, 'cfg': cfg, 'events': [],
                         'sig': ('C11', 'split-halves-amounts', cls_name)})
    return {'family': 'split-two-halves', 'stats': {'states': steps + 1, 'transitions': steps}, 'violations': viol,
            'validated': 1, 'counters': {'split_scenarios': 1}, 'samples': [detail]}


def run_bring_in(job):
    """opening rule of the stud variants as the table states it: lowest door card brings it in (razz: highest, ace low), the
    suit c < d < h < s breaks ties - every ordered assignment of door cards over a two-rank x four-suit sub-deck"""
    from itertools import permutations
    from ..refs import opener as O
    cls_name = job['cls']
    env.set_warnings('ignore')
    razz = V.VARIANTS[cls_name][4][0][4] == 'HIGH_CARD'
    viol = []
    n_cases = 0
    sub = [r + s for r in ('2K' if not razz else 'KA') for s in 'cdhs'] + ['7d']
    for n in (2, 3):
        p = params_for(cls_name, 2, 4, n)
        p['raw_starting_stacks'] = (40,) * n
        cfg = {'game': cls_name, 'autos': ['ANTE_POSTING', 'BET_COLLECTION', 'CARD_BURNING'], 'p': p}
        for case in permutations(sub, n):
            st = C.build(cfg)
            for i in range(n):
                st.deal_hole('????' + case[i], i)
            n_cases += 1
            exp = O.door_opener(list(case), razz)
            if st.actor_index != exp:
                viol.append({'oracle': 'opening-rule', 'detail': f'{cls_name}: door cards {case}: first to act is seat {st.actor_index}, '
                             f'the table\'s rule ({"highest" if razz else "lowest"} door card, suits break ties) says seat {exp}',
                             'cfg': cfg, 'events': [['deal_hole', '????' + case[i], i] for i in range(n)],
                             'sig': ('C11', 'opening-rule', cls_name)})
                if len(viol) > 5:
                    break
    return {'family': 'stud-opening-rule', 'stats': {'states': n_cases, 'transitions': n_cases * 2}, 'violations': viol[:5],
            'validated': n_cases, 'counters': {'door_card_cases': n_cases}, 'samples': [f'{cls_name}: door cards {sub[:2]}']}


def table_spec(cls_name, small, big):
    code, deck, hts, structure, streets, bets, cap, forced = V.VARIANTS[cls_name]
    mins = [{'small': small, 'big': big, 'min': small}[b] for b in bets]
    return Spec(structure, mins, [cap] * len(streets), 1 if forced == 'bring_in' else 0, [s[4] for s in streets])


def run_job(job):
    if job['kind'] == 'bring-in':
        return run_bring_in(job)
    if job['kind'] == 'static':
        return run_static(job)
    if job['kind'] == 'split':
        return run_split(job)
    if job['kind'] == 'showdown':
        from .c02 import PotsMonitor, real_strength_hb
        from .c12 import MuckMonitor
        job = dict(job, real='hole+board')
        # the pots as pushed (layered reference award) and, separately, as they would be with every hand tabled: a hand that
        # wins a half on one board must not be discarded for having nothing on another
        r, ctx = sx.run(job, [PotsMonitor('C11', strength=real_strength_hb), MuckMonitor('C11')], validated='terminals_compared')
        return r
    spec = table_spec(job['cls'], 2, 4)
    mon = BettingMonitor('C11', spec=spec)
    from ..refs.dealing import DealingMonitor
    # the dealing protocol of the variant's streets (cards and facing per live player, board cards, burns, draws, the stud
    # hole-to-board fallback) runs along: the static table fixes the street definitions, this fixes that they are followed
    r, ctx = sx.run(job, [mon, DealingMonitor('C11'),
                          ErrorsMonitor('C11', ('fold', 'check_or_call', 'post_bring_in', 'complete_bet_or_raise_to'))],
                    validated='decisions_compared')
    for v in r['violations']:
        v['sig'] = v['sig'] + '|' + job['cls'] if isinstance(v['sig'], str) else tuple(v['sig']) + (job['cls'],)
    return r


def sanity(agg, counters, fam, tier):
    return [f'{k} == 0' for k in ('static_configurations_compared', 'cap_reached_states', 'split_scenarios', 'decisions_compared',
                                  'terminals_with_a_type_made_only_by_a_non_contender_of_a_side_pot', 'terminals_with_side_pots')
            if not counters.get(k)]


def bounds(tier):
    return '12 classes + 11 PHH codes x (small,big) x players 2-4 x modes; dynamic: 2-3 players, k deviations, raise wars to depth 6'
