"""C15 - the operation log is a faithful record; states are deterministic and copyable."""
import copy
from collections import deque

from .. import sx, env, canon, configs as C
from ..alphabet import apply, replay as replay_events
from ..explore import exc_signature, error_shape
from .c09 import compare

PROPERTY = 'C15'
LEVEL = 'model_checking'
RULE = ('every history of small configurations (BFS branching by copy.deepcopy): (1) the records appended by each event '
        'are re-applied through an explicit record->call map to a fresh un-automated twin, which must log the same '
        'records and have equal fields; (2) a fresh state fed the event path equals the state reached by '
        'deepcopy-branching; (3) at every state and event: operating on a deepcopy leaves the original unchanged, both '
        'respond identically, and no mutable container is shared between original and copy')
ASSUMPTIONS = ['warnings ignored (a replayed cash-game fold warns like the original)']


def call_of(rec):
    n = type(rec).__name__
    if n == 'AntePosting':
        return ('post_ante', rec.player_index)
    if n == 'BetCollection':
        return ('collect_bets',)
    if n == 'BlindOrStraddlePosting':
        return ('post_blind_or_straddle', rec.player_index)
    if n == 'CardBurning':
        return ('burn_card', rec.card)
    if n == 'HoleDealing':
        return ('deal_hole', rec.cards, rec.player_index)
    if n == 'BoardDealing':
        return ('deal_board', rec.cards)
    if n == 'StandingPatOrDiscarding':
        return ('stand_pat_or_discard', rec.cards)
    if n == 'Folding':
        return ('fold',)
    if n == 'CheckingOrCalling':
        return ('check_or_call',)
    if n == 'BringInPosting':
        return ('post_bring_in',)
    if n == 'CompletionBettingOrRaisingTo':
        return ('complete_bet_or_raise_to', rec.amount)
    if n == 'RunoutCountSelection':
        return ('select_runout_count', rec.runout_count, rec.player_index)
    if n == 'HoleCardsShowingOrMucking':
        return ('show_or_muck_hole_cards', rec.hole_cards if rec.hole_cards else False, rec.player_index)
    if n == 'HandKilling':
        return ('kill_hand', rec.player_index)
    if n == 'ChipsPushing':
        return ('push_chips',)
    if n == 'ChipsPulling':
        return ('pull_chips', rec.player_index)
    if n == 'NoOperation':
        return ('no_operate',)
    raise KeyError(n)


MUTABLE = (list, deque, set, dict, env.S.Pot)


def container_ids(st):
    ids = {}
    stack = [(n, getattr(st, n)) for n in canon.RUN_FIELDS]
    while stack:
        name, v = stack.pop()
        if isinstance(v, MUTABLE):
            ids[id(v)] = name
            if isinstance(v, dict):
                stack.extend((name, x) for x in v.values())
            elif not isinstance(v, (set, env.S.Pot)):
                stack.extend((name, x) for x in v)
    return ids


class LogMonitor:
    name = 'log'

    def __init__(self, prop='C15'):
        self.prop = prop

    # (1) replay twin -----------------------------------------------------
    def init(self, st, ctx):
        r = C.build(ctx.cfg, autos=())
        return self._feed(r, st, 0, 0, [], ctx)

    def _feed(self, r, post, na, nr, path, ctx):
        for rec in post.operations[na:]:
            call = call_of(rec)
            try:
                got = getattr(r, call[0])(*call[1:])
            except Exception as exc:
                sig = exc_signature(exc)
                shape = error_shape(ctx.cfg, path)
                ctx.violation('replay-refused', f'logged {rec} re-applied as {call[0]}{call[1:]} raised {type(exc).__name__}: {exc}',
                              path=path, sig=(self.prop, 'replay-refused', type(rec).__name__, type(exc).__name__, shape))
                return None
            ctx.counters['records_replayed'] += 1
            if got != rec:
                ctx.violation('replay-record', f'logged {rec}, replay produced {got}', path=path,
                              sig=(self.prop, 'replay-record', type(rec).__name__))
                return None
        d = compare(post, r, na, nr)
        if d:
            ctx.violation('replay-state', f'state after replaying the log differs: {d}', path=path,
                          sig=(self.prop, 'replay-state', d.split(':')[0]))
            return None
        return r

    def on_edge(self, pre, r, ev, post, rec, ctx):
        if r is None:
            return None
        path = list(ctx.path) + [ev]
        r2 = copy.deepcopy(r)
        return self._feed(r2, post, len(pre.operations), len(r.operations), path, ctx)

    # (3) copy independence -------------------------------------------------
    def on_state(self, st, r, menu, ctx):
        snap = canon.snapshot(st)
        c = copy.deepcopy(st)
        if canon.snapshot(c) != snap:
            ctx.violation('copy-differs', f'deepcopy differs in {canon.diff(st, c)}', sig=(self.prop, 'copy-differs'))
            return
        shared = set(container_ids(st)) & set(container_ids(c))
        ctx.counters['copies_checked'] += 1
        if shared:
            names = sorted({container_ids(st)[i] for i in shared})
            ctx.violation('copy-shares-containers', f'original and deepcopy share mutable containers of {names}',
                          sig=(self.prop, 'copy-shares', ','.join(names)))
        for ev, _ in menu:
            c = copy.deepcopy(st)
            try:
                apply(c, ev)
            except Exception:
                continue
            ctx.counters['copy_events_checked'] += 1
            if canon.snapshot(st) != snap:
                ctx.violation('copy-not-independent', f'applying {ev} to a deepcopy changed the original in {canon.diff(st, copy.deepcopy(st))}',
                              path=list(ctx.path) + [ev], sig=(self.prop, 'copy-not-independent'))
                return
            d = copy.deepcopy(st)
            try:
                apply(d, ev)
            except Exception as exc:
                ctx.violation('copy-responds-differently', f'{ev}: first copy accepted, second raised {exc}',
                              path=list(ctx.path) + [ev], sig=(self.prop, 'copy-responds-differently'))
                continue
            if canon.snapshot(c) != canon.snapshot(d):
                ctx.violation('copy-responds-differently', f'{ev}: two copies of the same state differ afterwards in {canon.diff(c, d)}',
                              path=list(ctx.path) + [ev], sig=(self.prop, 'copy-responds-differently'))

    # (2) determinism / fresh replay of the path -----------------------------
    def on_terminal(self, st, r, ctx):
        self._fresh(st, ctx)

    def on_deadlock(self, st, r, ctx):
        pass

    def _fresh(self, st, ctx):
        f = C.build(ctx.cfg)
        try:
            replay_events(f, ctx.path)
        except Exception as exc:
            ctx.violation('fresh-replay-raised', f'{type(exc).__name__}: {exc}', sig=(self.prop, 'fresh-replay-raised'))
            return
        ctx.counters['fresh_replays'] += 1
        if canon.snapshot(f) != canon.snapshot(st):
            ctx.violation('not-deterministic', f'fresh state fed the same events differs in {canon.diff(f, st)}',
                          sig=(self.prop, 'not-deterministic'))


class EffectMonitor:
    """Each record must describe what the operation actually did (independent of replay, which runs the
    same code): compared with the observed change of stacks / bets / cards / statuses."""
    name = 'effect'

    def __init__(self, prop='C15'):
        self.prop = prop
        self._obj = None
        self._prev = None

    @staticmethod
    def snap(st):
        return dict(stacks=list(st.stacks), bets=list(st.bets), payoffs=list(st.payoffs), statuses=list(st.statuses),
                    holes=[list(h) for h in st.hole_cards], hstat=[list(h) for h in st.hole_card_statuses],
                    board=[c for row in st.board_cards for c in row], burn=list(st.burn_cards),
                    disc=[c for d in st.discarded_cards for c in d], nops=len(st.operations),
                    pot=sum(st.starting_stacks) - sum(st.stacks) - sum(st.bets),
                    rsel=list(st.runout_count_selector_statuses))

    def before_apply(self, c, ev, ctx):
        self._obj, self._prev = c, self.snap(c)

    def on_update(self, st, op, ctx):
        cur = self.snap(st)
        if op is None or st is not self._obj:
            self._obj, self._prev = st, cur
            return
        p = self._prev
        self._prev = cur
        n = type(op).__name__
        i = getattr(op, 'player_index', None)
        bad = None
        ds = [a - b for a, b in zip(cur['stacks'], p['stacks'])]
        db = [a - b for a, b in zip(cur['bets'], p['bets'])]
        others_untouched = all(ds[j] == 0 and db[j] == 0 for j in range(st.player_count) if j != i)
        ctx.counters['record_effects_checked'] += 1
        if cur['nops'] != p['nops'] + 1 or st.operations[-1] is not op:
            bad = 'log did not grow by exactly this record'
        elif n in ('AntePosting', 'BlindOrStraddlePosting', 'BringInPosting', 'CheckingOrCalling'):
            if ds[i] != -op.amount or db[i] != op.amount or not others_untouched:
                bad = f'stack change {ds} / bet change {db} vs recorded amount {op.amount}'
            if n == 'BringInPosting' and -ds[i] < st.bring_in:
                ctx.counters['bring_ins_posted_in_part'] += 1
        elif n == 'CompletionBettingOrRaisingTo':
            if cur['bets'][i] != op.amount or ds[i] != -db[i] or not others_untouched:
                bad = f'bet after {cur["bets"][i]} vs recorded raise-to {op.amount}'
        elif n == 'BetCollection':
            went = cur['pot'] - p['pot']
            if sum(op.bets) != went:
                bad = f'recorded bets {op.bets} sum to {sum(op.bets)} but {went} chips went into the pot'
            else:
                for j in range(st.player_count):
                    took = p['bets'][j] - cur['bets'][j] - ds[j]     # chips of player j that went into the pot
                    if op.bets[j] != took:
                        bad = f'recorded bets {op.bets}; player {j} actually put {took} into the pot'
        elif n == 'ChipsPushing':
            if list(op.amounts) != db or any(ds):
                bad = f'recorded amounts {op.amounts} vs bet changes {db}'
        elif n == 'ChipsPulling':
            if ds[i] != op.amount or db[i] != -op.amount or not others_untouched:
                bad = f'recorded {op.amount} vs stack change {ds[i]}'
        elif n == 'HoleDealing':
            k = len(op.cards)
            if cur['holes'][i][-k:] != list(op.cards) or cur['hstat'][i][-k:] != list(op.statuses) or \
                    len(cur['holes'][i]) != len(p['holes'][i]) + k:
                bad = f'recorded {op.cards}/{op.statuses} vs hole cards now {cur["holes"][i]}/{cur["hstat"][i]}'
        elif n == 'BoardDealing':
            new = sorted(map(repr, cur['board']))
            old = sorted(list(map(repr, p['board'])) + list(map(repr, op.cards)))
            if new != old:
                bad = f'recorded {op.cards} vs board change'
        elif n == 'CardBurning':
            if not cur['burn'] or cur['burn'][-1] != op.card:
                bad = f'recorded {op.card} vs burn pile {cur["burn"][-2:]}'
        elif n == 'StandingPatOrDiscarding':
            gone = sorted(map(repr, p['holes'][i]))
            left = sorted(list(map(repr, cur['holes'][i])) + list(map(repr, op.cards)))
            if gone != left:
                bad = f'recorded discards {op.cards} vs hole {p["holes"][i]} -> {cur["holes"][i]}'
        elif n in ('Folding', 'HandKilling'):
            if cur['statuses'][i] or not p['statuses'][i]:
                bad = 'player status not switched off'
        elif n == 'HoleCardsShowingOrMucking':
            if op.hole_cards:
                # every tabled (known) card of the record is the hole card at that position and is now face up; a position the
                # record leaves unknown was kept face down (its status must not have been switched on by this operation)
                hc, hs = cur['holes'][i], cur['hstat'][i]
                if len(hc) != len(op.hole_cards):
                    bad = f'recorded {op.hole_cards} vs hole cards now {hc}'
                else:
                    for k, c in enumerate(op.hole_cards):
                        if c and (hc[k] != c or not hs[k]):
                            bad = f'recorded {op.hole_cards} vs hole cards now {hc} statuses {hs}'
                        elif not c and hs[k] and not p['hstat'][i][k]:
                            bad = f'recorded {op.hole_cards} (position {k} kept face down) but statuses went {p["hstat"][i]} -> {hs}'
            elif cur['statuses'][i]:
                bad = 'recorded a muck but the player is still in'
        elif n == 'RunoutCountSelection':
            if cur['rsel'][i] or not p['rsel'][i]:
                bad = 'selector status not cleared'
        if bad:
            path = list(ctx.path) + ([ctx.cur_event] if ctx.cur_event and ctx.cur_event[0] != '<construct>' else [])
            ctx.violation('record-vs-effect', f'{op}: {bad}', path=path, sig=(self.prop, 'record-vs-effect', n))


def _j(family, cfg, **kw):
    j = {'family': family, 'cfg': cfg}
    j.update(kw)
    return j


MIX = [['ANTE_POSTING', 'BET_COLLECTION', 'BLIND_OR_STRADDLE_POSTING', 'HOLE_CARDS_SHOWING_OR_MUCKING', 'HAND_KILLING',
        'CHIPS_PUSHING', 'CHIPS_PULLING'],
       ['CARD_BURNING', 'HOLE_DEALING', 'BOARD_DEALING', 'RUNOUT_COUNT_SELECTION'],
       ['BET_COLLECTION', 'CARD_BURNING', 'HAND_KILLING']]


def jobs(tier, seed):
    th = tier == 'thorough'
    out = []
    for au in ['NONE', 'ALL'] + MIX:
        out.append(_j('NT-2-cash', C.nt((2, 3), mode='cash', autos=au), opts={'runouts': (None, 1, 2), 'show': (None, True, False, 'partial'), 'post_hand_show': True}))
        out.append(_j('NT-3', C.nt((3, 5, 2), autos=au, antes=1), opts={'raises': 'minmax', 'show': (None, True), 'post_hand_show': True},
                      dev_bound=5 if not th else None))
        out.append(_j('stud-2', C.stud((3, 6), autos=au), dev_bound=5 if not th else 7))
        out.append(_j('razz-3', C.stud((2, 5, 4), autos=au, game='FixedLimitRazz'), dev_bound=3 if not th else 4))
        # a bring-in larger than one chip: a stack between the ante and ante + bring-in posts it in part (the record must say what
        # was posted), every seat in turn being that short stack
        for stacks in [(2, 9), (9, 2), (2, 9, 9), (9, 2, 9), (9, 9, 2)]:
            out.append(_j('stud-partial-bring-in', C.stud(stacks, autos=au, antes=1, bring_in=2, small=4, big=8), dev_bound=1 if not th else 3))
        out.append(_j('draw-2', C.nt((3, 5), autos=au, game='NoLimitDeuceToSevenLowballSingleDraw'),
                      opts={'raises': 'minmax', 'discards': ('none', 'first', 'two')}, dev_bound=3 if not th else 5))
        out.append(_j('badugi-2', C.fl((3, 5), autos=au, game='FixedLimitBadugi'),
                      opts={'discards': ('none', 'first')}, dev_bound=2 if not th else 3))
        out.append(_j('tiny-hilo-2boards-cash', C.custom((3, 2, 4), C.TWO_STREET_BURN, deck='KUHN9', hand_types=('KuhnAny', 'JQLow'),
                                                       antes=1, blinds=(1, 2), boards=2, mode='cash', autos=au),
                      opts={'runouts': (None, 2), 'players': au == 'NONE'}, dev_bound=4 if not th else None))
        out.append(_j('PLO-2boards', C.nt((3, 2), autos=au, game='PotLimitOmahaHoldem', boards=2, mode='cash'),
                      opts={'runouts': (None, 2), 'show': (None, 'partial')}))
        if th:
            out.append(_j('FT-3', C.fl((5, 9, 3), autos=au), dev_bound=5))
            out.append(_j('NS-3', C.nt((3, 5, 4), autos=au, antes=1, game='NoLimitShortDeckHoldem', blinds=(0, 2)),
                          opts={'raises': 'minmax'}, dev_bound=4))
    for j in out:
        j.setdefault('state_cap', 100000 if th else 8000)
        j.setdefault('time_cap', 1800 if th else 400)
    return out


def run_job(job):
    r, ctx = sx.run(job, [LogMonitor('C15'), EffectMonitor('C15')], validated='records_replayed', clone=copy.deepcopy)
    return r


def sanity(agg, counters, fam, tier):
    return [f'{k} == 0' for k in ('records_replayed', 'copy_events_checked', 'fresh_replays', 'bring_ins_posted_in_part') if not counters.get(k)]


def bounds(tier):
    return 'NT/stud/razz/draw/badugi/PLO double board/tiny hi-lo two boards, 2-3 players, tiny stacks; automation in {none, all, 3 mixed}'
