"""C04 - hand comparison agrees with the rules of poker for every hand of every type.

Input-space model checking: the complete finite space of card subsets of each type's deck is
enumerated (all C(52,5) five-card subsets for each five-card type, all subsets of size 1-4 for
the badugi types, ...) and every element is pushed through the real constructor, the real
``entry`` lookup and the real comparison operators, against the independent rule-based evaluator
``refs/handeval.py``.
"""
from collections import Counter
from itertools import combinations, combinations_with_replacement

from .. import env
from ..refs import handeval as H

PROPERTY = 'C04'
LEVEL = 'model_checking'
RULE = ('every card subset of the 52-card deck of the relevant size(s) is enumerated per hand type (2,598,960 five-card '
        'subsets x 8 five-card types; 294,203 subsets of size 1-4 x 2 badugi types; all single cards for Kuhn), plus wrong-size '
        'inputs (all subsets of size 1-4 for the five-card types, all rank multisets of size 6-7) and unknown-card variants; a case is one (type, card subset); non-trivial and distinct '
        '= distinct (type, reference strength class) pairs reached (e.g. 7,462 classes for the standard lookup)')
ASSUMPTIONS = ['card tuples with a repeated card are not "card sets": accepted ones are counted, not judged',
               'a KeyError for unknown ranks counts as a rejection (documented type is ValueError); counted in the evidence',
               'pairwise comparison of class representatives relies on comparison being a function of the two classes, which '
               'the per-hand comparison with the canonical representative of its class establishes for every hand']

FIVE = ['StandardHighHand', 'StandardLowHand', 'GreekHoldemHand', 'OmahaHoldemHand', 'ShortDeckHoldemHand',
        'EightOrBetterLowHand', 'OmahaEightOrBetterLowHand', 'RegularLowHand']
BADUGI = ['BadugiHand', 'StandardBadugiHand']
ALL_TYPES = FIVE + BADUGI + ['KuhnPokerHand']

DECK = [r + s for r in '23456789TJQKA' for s in 'cdhs']
SUB16 = [r + s for r in 'A2589TK6' for s in 'sh']


class _Objs(dict):
    def __missing__(self, t):
        from pokerkit.utilities import Card
        c = self[t] = next(Card.parse(t))
        return c


def _objs():
    return _Objs()


def _cls(name):
    import pokerkit.hands as PH
    return getattr(PH, name)


# ----------------------------------------------------------------------------------------------
# jobs
# ----------------------------------------------------------------------------------------------

def jobs(tier, seed):
    out = []
    # five-card subsets, split by the first two card positions, balanced by size
    from math import comb
    pref = [(i, j) for i in range(52) for j in range(i + 1, 52) if 51 - j >= 3]
    pref.sort(key=lambda ij: -comb(51 - ij[1], 3))
    nb = 160
    buckets = [[0, []] for _ in range(nb)]
    for ij in pref:
        b = min(buckets, key=lambda x: x[0])
        b[0] += comb(51 - ij[1], 3)
        b[1].append(ij)
    for k, (sz, pl) in enumerate(buckets):
        out.append({'family': 'five-card-all-subsets', 'kind': 'five', 'prefixes': pl, 'size': sz})
    # badugi: all subsets of size 1..4, split by first card
    for i in range(52):
        out.append({'family': 'all-subsets-of-size-1-4', 'kind': 'badugi', 'first': i})
    out.append({'family': 'kuhn-all-cards', 'kind': 'kuhn'})
    out.append({'family': 'too-many-cards', 'kind': 'sizes'})
    out.append({'family': 'unknown-cards', 'kind': 'unknown'})
    out.append({'family': 'repeated-cards', 'kind': 'repeated'})
    for t in ALL_TYPES:
        out.append({'family': 'hands-are-values', 'kind': 'mutable', 'type': t, 'all': tier == 'thorough'})
    # pairwise comparison of class representatives with the real operators
    for t in ALL_TYPES:
        nrows = 64 if tier == 'thorough' else 8
        for k in range(nrows):
            out.append({'family': 'representative-pairs', 'kind': 'pairs', 'type': t, 'slice': (k, nrows),
                        'all_pairs': tier == 'thorough'})
    if seed:
        r = seed % len(out)
        out = out[r:] + out[:r]
    # biggest first for load balance
    out.sort(key=lambda j: 0 if j['kind'] == 'pairs' and j.get('all_pairs') else 1)
    return out


# ----------------------------------------------------------------------------------------------
# single-hand oracle
# ----------------------------------------------------------------------------------------------

class Judge:
    def __init__(self):
        self.objs = _objs()
        self.cls = {t: _cls(t) for t in ALL_TYPES}
        self.reps = {}           # (type, refkey) -> Hand
        self.idx = {t: {} for t in ALL_TYPES}   # type -> refkey -> entry.index
        self.viol = []
        self.c = Counter()
        self.evals = 0

    def v(self, oracle, t, cards, detail, shape=''):
        if len(self.viol) < 40:
            self.viol.append({'oracle': oracle, 'detail': f'{t}({"".join(cards)}): {detail}',
                              'cfg': {'type': t, 'cards': list(cards)}, 'events': [],
                              'sig': ('C04', oracle, t, shape)})

    def rep(self, t, refk, cards):
        h = self.reps.get((t, refk))
        if h is None:
            rc = H.canonical_rep(t, cards)
            assert H.key(t, rc) == refk, (t, cards, rc)
            h = self.reps[(t, refk)] = self.cls[t](tuple(self.objs[c] for c in rc))
        return h

    def one(self, t, cards, refk, expect_reject_kind=None):
        """cards: tuple of card texts; refk: reference key or None."""
        self.evals += 1
        T = self.cls[t]
        try:
            h = T(tuple(self.objs[c] for c in cards))
        except ValueError:
            h = None
        except KeyError as exc:
            h = None
            self.c['rejected_with_KeyError'] += 1
            if all(c[0] != '?' for c in cards):
                self.v('rejection-exception', t, cards, f'KeyError {exc} for known cards')
        except Exception as exc:
            self.v('constructor-raised', t, cards, f'{type(exc).__name__}: {exc}', type(exc).__name__)
            return
        if refk is None:
            self.c['invalid_inputs'] += 1
            if h is not None:
                self.v('invalid-accepted', t, cards, 'not a hand of this type by the rules, but the constructor accepted it',
                       expect_reject_kind or '')
            return
        self.c['valid_inputs'] += 1
        if h is None:
            self.v('valid-rejected', t, cards, f'a valid hand (reference class {refk}) was rejected')
            return
        e = h.entry
        known = self.idx[t].setdefault(refk, e.index)
        if known != e.index:
            self.v('class-split', t, cards, f'entry index {e.index} but another hand of the same reference class {refk} has {known}')
        lab = H.label_of_key(t, refk)
        if getattr(e.label, 'value', e.label) != lab:
            self.v('label', t, cards, f'label {e.label!r}, rules say {lab!r}')
        r = self.rep(t, refk, cards)
        ok = (h == r) and not (h < r) and not (h > r) and (h <= r) and (h >= r) and not (h != r) and hash(h) == hash(r)
        self.c['hand_vs_class_representative'] += 1
        if not ok:
            self.v('equal-rank-not-equal', t, cards,
                   f'same rank as {r!r} by the rules, but ==:{h == r} <:{h < r} >:{h > r} <=:{h <= r} >=:{h >= r} hash-equal:{hash(h) == hash(r)}')


def run_five(job, J):
    keyfns = {}
    for t in FIVE:
        keyfns.setdefault(H.KEY[t], []).append(t)
    D = DECK
    sample = None
    for (i, j) in job['prefixes']:
        ci, cj = D[i], D[j]
        for rest in combinations(D[j + 1:], 3):
            cards = (ci, cj) + rest
            first = None
            for fn, ts in keyfns.items():
                k = fn(cards)
                for t in ts:
                    J.one(t, cards, k)
                    if first is None:
                        first = (t, k)
            # the verdict is a function of the cards: the type asked first is asked again after all the others saw them
            J.one(first[0], cards, first[1])
            J.c['asked_again_after_the_other_types'] += 1
            if sample is None:
                sample = {'type': 'StandardHighHand', 'cards': ''.join(cards), 'reference_class': repr(H.key('StandardHighHand', cards))}
    return sample


def run_badugi(job, J):
    """all subsets of size 1-4 with a given first card: valid/invalid for the badugi types, always the wrong size for the
    five-card types and (sizes 2-4) for Kuhn"""
    D = DECK
    i = job['first']
    sample = None
    for n in (1, 2, 3, 4):
        for rest in combinations(D[i + 1:], n - 1):
            cards = (D[i],) + rest
            for t in BADUGI:
                J.one(t, cards, H.key(t, cards))
            for t in FIVE:
                J.one(t, cards, None, 'wrong-size')
            if n > 1:
                J.one('KuhnPokerHand', cards, None, 'wrong-size')
            # the verdict is a function of the cards: the badugi types are asked again after all the others saw them
            for t in BADUGI:
                J.one(t, cards, H.key(t, cards))
                J.c['asked_again_after_the_other_types'] += 1
            sample = sample or {'type': 'BadugiHand', 'cards': ''.join(cards)}
    return sample


def run_kuhn(job, J):
    for c in DECK:
        J.one('KuhnPokerHand', (c,), H.key('KuhnPokerHand', (c,)))
    for cards in combinations(['Js', 'Qs', 'Ks', 'Jh'], 2):
        J.one('KuhnPokerHand', cards, None, 'wrong-size')
    return {'type': 'KuhnPokerHand', 'cards': 'Js'}


def run_sizes(job, J):
    """too many cards: every rank multiset of size 6 and 7 (multiplicity <= 4) in a mixed-suit and, where the ranks are
    distinct, a one-suit form; every subset of sizes 6-7 of a 16-card sub-deck; the empty hand"""
    order = '23456789TJQKA'
    for t in ALL_TYPES:
        J.one(t, (), None, 'wrong-size')
    for n in (6, 7):
        for ms in combinations_with_replacement(order, n):
            if max(Counter(ms).values()) > 4:
                continue
            forms = [tuple(r + 'shdc'[i % 4] for i, r in enumerate(sorted(ms)))]
            if len(set(ms)) == n:
                forms.append(tuple(r + 's' for r in ms))
            for cards in forms:
                if len(set(cards)) != n:
                    continue
                for t in FIVE:
                    J.one(t, cards, None, 'wrong-size')
        for cards in combinations(SUB16, n):
            for t in FIVE:
                J.one(t, cards, None, 'wrong-size')
    for n in (5, 6):
        for ms in combinations_with_replacement(order, n):
            if max(Counter(ms).values()) > 4:
                continue
            cards = tuple(r + 'shdc'[i % 4] for i, r in enumerate(sorted(ms)))
            if len(set(cards)) != n:
                continue
            for t in BADUGI:
                J.one(t, cards, None, 'wrong-size')
    return {'type': 'StandardHighHand', 'cards': '9sTsJsQsKsAs', 'expected': 'rejected (six cards)'}


def run_unknown(job, J):
    base = [r + s for r in 'A2345678' for s in 'sh'][:11]
    for cards in combinations(base, 5):
        for pos in range(5):
            for u in ('??', 'A?', '?s'):
                cs = cards[:pos] + (u,) + cards[pos + 1:]
                for t in FIVE:
                    J.one(t, cs, None, 'unknown-card')
    for n in (1, 2, 3, 4):
        for cards in combinations(['As', '2h', '3d', '4c', '5s'], n):
            for pos in range(n):
                for u in ('??', 'A?', '?s'):
                    cs = cards[:pos] + (u,) + cards[pos + 1:]
                    for t in BADUGI:
                        J.one(t, cs, None, 'unknown-card')
    for u in ('??', 'K?', '?s'):
        J.one('KuhnPokerHand', (u,), None, 'unknown-card')
    return {'type': 'StandardLowHand', 'cards': '??2s3s4s5h', 'expected': 'rejected (unknown card)'}


def run_repeated(job, J):
    """Not judged: a tuple with the same card twice is not a card set. Counted for the record."""
    objs = J.objs
    n_acc = n = 0
    for cards in combinations(['As', 'Kh', 'Qd', 'Jc', '2s'], 4):
        for dup in cards:
            cs = cards + (dup,)
            for t in FIVE:
                n += 1
                try:
                    J.cls[t](tuple(objs[c] for c in cs))
                    n_acc += 1
                except (ValueError, KeyError):
                    pass
    J.c['repeated_card_tuples_tried'] += n
    J.c['repeated_card_tuples_accepted_not_judged'] += n_acc
    J.evals += n
    return None


def run_mutable(job, J):
    """A hand is a value: built from a container the caller goes on using (list, deque, a list later emptied / refilled /
    reordered), its cards, entry, comparisons and hash stay what they were when it was built. Every class representative of the
    type, in turn, with the next representative's cards written over the caller's container."""
    from collections import deque
    t = job['type']
    T = J.cls[t]
    items = class_reps(t)
    step = 1 if job.get('all') else max(1, len(items) // 400)
    idxs = list(range(0, len(items), step))
    for a, b in zip(idxs, idxs[1:] + idxs[:1]):
        ca, cb = items[a][2], items[b][2]
        ref = T(tuple(J.objs[c] for c in ca))
        for mk in (list, deque):
            buf = mk(J.objs[c] for c in ca)
            h = T(buf)
            for how in ('overwrite', 'reverse', 'clear'):
                if how == 'overwrite':
                    for k in range(len(buf)):
                        buf[k] = J.objs[cb[k % len(cb)]]
                elif how == 'reverse':
                    buf.reverse()
                else:
                    buf.clear()
                J.evals += 1
                J.c['hands_checked_after_callers_container_changed'] += 1
                try:
                    ok = (h == ref and not h < ref and not h > ref and hash(h) == hash(ref) and h.entry.index == ref.entry.index
                          and [repr(c) for c in h.cards] == list(ca))
                    why = f'==:{h == ref} entry {h.entry.index} vs {ref.entry.index} cards {list(map(repr, h.cards))}'
                except Exception as exc:
                    ok, why = False, f'{type(exc).__name__}: {exc}'
                if not ok:
                    J.v('hand-follows-callers-container', t, ca, f'built from a {mk.__name__}; after the caller\'s {how} of that {mk.__name__} '
                        f'(next cards {"".join(cb)}) the hand is no longer what was built: {why}', mk.__name__)
                    break
    # the same hands from one-shot iterables of the cards: generator, iterator, map, reversed
    for a in idxs:
        ca = items[a][2]
        ref = T(tuple(J.objs[c] for c in ca))
        for name, mk in (('generator', lambda cs: (J.objs[c] for c in cs)), ('iterator', lambda cs: iter([J.objs[c] for c in cs])),
                         ('map', lambda cs: map(J.objs.get, cs)), ('reversed', lambda cs: reversed([J.objs[c] for c in cs][::-1]))):
            J.evals += 1
            J.c['hands_built_from_one_shot_iterables'] += 1
            try:
                h = T(mk(ca))
                ok = h == ref and h.entry.index == ref.entry.index and [repr(c) for c in h.cards] == list(ca)
                why = f'built {h!r}'
            except Exception as exc:
                ok, why = False, f'{type(exc).__name__}: {exc}'
            if not ok:
                J.v('hand-from-iterable', t, ca, f'given as a {name} of the cards: {why}; as a tuple it is {ref!r}', name)
    return {'type': t, 'cards': ''.join(items[0][2]), 'container': 'list, then overwritten'}


def class_reps(t):
    """Canonical representatives of every reference class of a type, weakest first."""
    reps = {}
    if t in FIVE:
        order = '23456789TJQKA'
        for ms in combinations_with_replacement(order, 5):
            if max(Counter(ms).values()) > 4:
                continue
            variants = [tuple(r + 'shdc'[i % 4] for i, r in enumerate(sorted(ms)))]
            if len(set(ms)) == 5:
                variants.append(tuple(r + 's' for r in ms))
            for cards in variants:
                k = H.key(t, cards)
                if k is not None:
                    reps.setdefault(k, H.canonical_rep(t, cards))
    elif t in BADUGI:
        for n in (1, 2, 3, 4):
            for ms in combinations('23456789TJQKA', n):
                cards = tuple(r + 'shdc'[i] for i, r in enumerate(ms))
                k = H.key(t, cards)
                reps.setdefault(k, H.canonical_rep(t, cards))
    else:
        for c in ('Js', 'Qs', 'Ks'):
            reps[H.key(t, (c,))] = (c,)
    items = [(H.strength(t, c), k, c) for k, c in reps.items()]
    items.sort(key=lambda x: x[0])
    return items


def run_pairs(job, J):
    t = job['type']
    items = class_reps(t)
    T = J.cls[t]
    hands = [T(tuple(J.objs[c] for c in cards)) for _, _, cards in items]
    n = len(hands)
    k, m = job['slice']
    rows = range(k, n, m)
    if job['all_pairs']:
        cols_of = lambda a: range(n)
    else:
        ladder = sorted(set(range(0, n, max(1, n // 48))) | {0, n - 1})
        cols_of = lambda a: sorted(set(ladder) | {x for x in (a - 2, a - 1, a, a + 1, a + 2) if 0 <= x < n})
    cmpd = 0
    for a in rows:
        ha = hands[a]
        for b in cols_of(a):
            hb = hands[b]
            cmpd += 1
            lt, eq, gt = ha < hb, ha == hb, ha > hb
            exp = (a < b, a == b, a > b)
            if (lt, eq, gt) != exp or (a == b and hash(ha) != hash(hb)) or (ha != hb) == eq or (ha <= hb) != (a <= b) \
                    or (ha >= hb) != (a >= b):
                J.v('pair-order', t, items[a][2], f'vs {"".join(items[b][2])}: rules say {"<" if a < b else ">" if a > b else "=="}'
                    f' (classes {items[a][1]} / {items[b][1]}), operators gave <:{lt} ==:{eq} >:{gt}')
    J.c['representative_pairs_compared'] += cmpd
    if k == 0:
        J.c[f'class_representatives[{t}]'] = n
    J.evals += cmpd
    return {'type': t, 'pair': [''.join(items[0][2]), ''.join(items[-1][2])], 'expected': '<'}


RUN = {'five': run_five, 'badugi': run_badugi, 'kuhn': run_kuhn, 'sizes': run_sizes, 'unknown': run_unknown,
       'repeated': run_repeated, 'pairs': run_pairs, 'mutable': run_mutable}


def run_job(job):
    env.set_warnings('ignore')
    J = Judge()
    sample = RUN[job['kind']](job, J)
    merge = {t: d for t, d in J.idx.items() if d}
    return {'family': job['family'], 'stats': {}, 'violations': J.viol[:20], 'counters': dict(J.c),
            'evaluations': J.evals, 'validated': J.evals, 'samples': [sample] if sample else [], 'merge': merge}


def finalize(merges, tier):
    """Order isomorphism over all hands: one index per reference class, indices strictly monotone in strength."""
    viol = []
    c = Counter()
    total = {}
    for m in merges:
        for t, d in m.items():
            tt = total.setdefault(t, {})
            for k, idx in d.items():
                if tt.setdefault(k, idx) != idx:
                    viol.append({'oracle': 'class-split', 'detail': f'{t}: reference class {k} maps to entry indices {tt[k]} and {idx}',
                                 'cfg': {'type': t, 'class': repr(k)}, 'events': [], 'sig': ('C04', 'class-split', t, '')})
    distinct = 0
    for t, d in total.items():
        distinct += len(d)
        c[f'classes_reached[{t}]'] = len(d)
        expected = len(class_reps(t))
        if len(d) != expected:
            viol.append({'oracle': 'classes-reached', 'detail': f'{t}: {len(d)} reference classes reached, rules have {expected}',
                         'cfg': {'type': t}, 'events': [], 'sig': ('C04', 'classes-reached', t, '')})
        ks = sorted(d, key=lambda k: H.Rev(k) if H.LOW[t] else k)        # weakest first
        idxs = [d[k] for k in ks]
        inc = all(a < b for a, b in zip(idxs, idxs[1:]))
        dec = all(a > b for a, b in zip(idxs, idxs[1:]))
        c['adjacent_class_pairs_checked'] += max(0, len(ks) - 1)
        if not (inc or dec) and len(ks) > 1:
            bad = next(i for i in range(len(ks) - 1)
                       if (idxs[i] < idxs[i + 1]) != (idxs[0] < idxs[1]) or idxs[i] == idxs[i + 1])
            viol.append({'oracle': 'index-order', 'detail': f'{t}: entry indices are not strictly monotone in strength: classes '
                         f'{ks[bad]} -> {idxs[bad]} and {ks[bad + 1]} -> {idxs[bad + 1]}',
                         'cfg': {'type': t, 'classes': [repr(ks[bad]), repr(ks[bad + 1])]}, 'events': [],
                         'sig': ('C04', 'index-order', t, '')})
    return viol, c, {'distinct': distinct}


def sanity(agg, counters, fam, tier):
    msgs = []
    if counters.get('classes_reached[StandardHighHand]') != 7462:
        msgs.append('standard lookup classes reached != 7462')
    for k in ('invalid_inputs', 'valid_inputs', 'hand_vs_class_representative', 'representative_pairs_compared'):
        if not counters.get(k):
            msgs.append(f'{k} == 0')
    return msgs


def bounds(tier):
    return ('complete: all C(52,5) subsets for 8 five-card types, all subsets of size 1-4 for 2 badugi types, Kuhn; wrong sizes: '
            'all subsets of size 0-4, all rank multisets of size 6-7 (mixed and one-suit forms); unknown-card variants of all 5-subsets of an 11-card sub-deck; class representatives: '
            + ('all ordered pairs with the real operators' if tier == 'thorough' else
               'each representative against a 48-rung ladder and its 4 nearest neighbours with the real operators'))


def replay(doc):
    env.set_warnings('ignore')
    cfg = doc['cfg']
    print('oracle:', doc.get('oracle'), '|', doc.get('detail'))
    if 'cards' not in cfg:
        print('(global oracle; re-run ./check C04)')
        return 1
    t, cards = cfg['type'], tuple(cfg['cards'])
    J = Judge()
    J.one(t, cards, H.key(t, cards))
    for v in J.viol:
        print('reproduced:', v['oracle'], v['detail'])
    return 1 if J.viol else 0
