"""C08 - query, verifier and operation agree; a refused operation changes nothing."""
from .. import sx, env, canon, configs as C
from ..alphabet import card_text

PROPERTY = 'C08'
LEVEL = 'model_checking'
RULE = ('every reachable state of small state graphs (BFS over the real State) x every operation x a menu of valid, '
        'invalid and boundary arguments; for each: can_*() is a pure bool, verify_*() agrees and is pure, the '
        'operation succeeds iff the query said yes, a refusal is ValueError/UserWarning and leaves all fields equal, '
        'an explicit player index is the player served')
ASSUMPTIONS = ['arguments are of the documented types (indices within 0..n-1, ints, card texts)',
               'under warnings=ignore a warned operation counts as accepted; under warnings=error as refused']

VERIFY = {
    'post_ante': 'verify_ante_posting', 'collect_bets': 'verify_bet_collection',
    'post_blind_or_straddle': 'verify_blind_or_straddle_posting', 'burn_card': 'verify_card_burning',
    'deal_hole': 'verify_hole_dealing', 'deal_board': 'verify_board_dealing',
    'stand_pat_or_discard': 'verify_standing_pat_or_discarding', 'fold': 'verify_folding',
    'check_or_call': 'verify_checking_or_calling', 'post_bring_in': 'verify_bring_in_posting',
    'complete_bet_or_raise_to': 'verify_completion_betting_or_raising_to',
    'select_runout_count': 'verify_runout_count_selection',
    'show_or_muck_hole_cards': 'verify_hole_cards_showing_or_mucking', 'kill_hand': 'verify_hand_killing',
    'push_chips': 'verify_chips_pushing', 'pull_chips': 'verify_chips_pulling',
}
CAN = {op: 'can_' + op for op in VERIFY}
INDEXED = {'post_ante': 0, 'post_blind_or_straddle': 0, 'kill_hand': 0, 'pull_chips': 0,
           'deal_hole': 1, 'select_runout_count': 1, 'show_or_muck_hole_cards': 1}


def candidates(st):
    """(op, args, must_refuse_reason|None) - the legal + illegal argument menu of DESIGN section 3.3."""
    n = st.player_count
    idx = [None] + list(range(n))
    out = []
    for i in idx:
        out.append(('post_ante', (i,) if i is not None else (), None))
        out.append(('post_blind_or_straddle', (i,) if i is not None else (), None))
        out.append(('kill_hand', (i,) if i is not None else (), None))
        out.append(('pull_chips', (i,) if i is not None else (), None))
    for op in ('collect_bets', 'fold', 'check_or_call', 'post_bring_in', 'push_chips'):
        out.append((op, (), None))
    deck = list(st.deck_cards)
    top = card_text(deck[:1]) if deck else 'As'
    top2 = card_text(deck[:2]) if len(deck) > 1 else 'AsKs'
    inplay = None
    for h in st.hole_cards:
        for c in h:
            if c:
                inplay = repr(c)
    foreign = '2c' if not any(repr(c) == '2c' for c in st.deck) else None
    # burn
    for a in [(), ('??',), (top,), (top2,)] + ([(inplay,)] if inplay else []) + ([(foreign,)] if foreign else []):
        out.append(('burn_card', a, 'two cards burnt' if a == (top2,) else None))
    # hole dealing
    pend = [len(x) for x in st.hole_dealing_statuses]
    mx = max(pend) if pend else 0
    for c in [None, 1, 2, 0, -1, mx + 1, len(deck) + 1, '??', top, top2, top + top] + ([inplay] if inplay else []):
        for i in idx:
            if c is None and i is None:
                a = ()
            elif i is None:
                a = (c,)
            else:
                a = (c, i)
            why = None
            if isinstance(c, int) and c is not None and c <= 0:
                why = 'non-positive card count'
            out.append(('deal_hole', a, why))
    # board dealing
    bc = st.board_dealing_count or 0
    for c in [None, 1, 0, -1, bc + 1, len(deck) + 1, top, card_text(deck[:bc]) if bc and len(deck) >= bc else top2, '??'] + ([inplay] if inplay else []):
        why = 'non-positive card count' if isinstance(c, int) and c <= 0 else None
        out.append(('deal_board', () if c is None else (c,), why))
    # draws
    d = st.stander_pat_or_discarder_index
    hc = st.hole_cards[d] if d is not None else []
    for a in [(), (card_text(hc[:1]),) if hc else ('As',), (card_text(hc[:2]),) if len(hc) > 1 else ('AsKs',),
              (top,), (card_text(hc[:1]) * 2,) if hc else ('AsAs',)]:
        out.append(('stand_pat_or_discard', a, None))
    # betting amounts around the bounds
    lo = st.min_completion_betting_or_raising_to_amount
    hi = st.max_completion_betting_or_raising_to_amount
    xs = {None, 0, -1, 1}
    if lo is not None:
        xs |= {lo - 1, lo, lo + 1, hi - 1, hi, hi + 1}
    else:
        xs |= {max(st.bets) + 1, max(st.bets) + 2, max(st.stacks) + max(st.bets)}
    for x in sorted(xs, key=lambda v: (v is not None, v)):
        out.append(('complete_bet_or_raise_to', () if x is None else (x,), None))
    # run-out selection
    for c in (None, 1, 2, 0, -3):
        for i in idx:
            a = (c,) if i is None else (c, i)
            if c is None and i is None:
                a = ()
            out.append(('select_runout_count', a, 'non-positive run-out count' if c is not None and c < 1 else None))
    # showdown
    for i in idx:
        who = i if i is not None else (st.showdown_indices[0] if st.showdown_indices else 0)
        h = [c for c in st.hole_cards[who]]
        vals = [None, True, False]
        if h and all(h):
            vals.append(card_text(h))
            if len(h) > 1:
                vals.append(card_text(h[:1]))
            vals.append(card_text(h) + top)
        else:
            vals.append(top2)
        for v in vals:
            a = (v,) if i is None else (v, i)
            if v is None and i is None:
                a = ()
            out.append(('show_or_muck_hole_cards', a, None))
    return out


OK_EXC = (ValueError, UserWarning)

PENDING = {'post_ante': 'ante_posting_statuses', 'post_blind_or_straddle': 'blind_or_straddle_posting_statuses',
           'select_runout_count': 'runout_count_selector_statuses', 'kill_hand': 'hand_killing_statuses'}


def served_other(op, st, c, i):
    """An accepted operation with the explicit player index i, no automation following it: a description of any effect
    on the per-player bookkeeping that lands on another player (or misses i), else None."""
    n = st.player_count
    others = [j for j in range(n) if j != i]
    f = PENDING.get(op)
    if f:
        b, a = list(getattr(st, f)), list(getattr(c, f))
        if not b[i] or a[i] or any(a[j] != b[j] for j in others):
            return f'{f} {b} -> {a}'
    if op in ('post_ante', 'post_blind_or_straddle', 'pull_chips'):
        if any(st.stacks[j] != c.stacks[j] or st.bets[j] != c.bets[j] for j in others):
            return f'stacks/bets of other players changed: {st.stacks}/{st.bets} -> {c.stacks}/{c.bets}'
        if (st.stacks[i], st.bets[i]) == (c.stacks[i], c.bets[i]) and (op != 'post_ante' or st.antes[i]) \
                and (op != 'post_blind_or_straddle' or st.blinds_or_straddles[i]):
            return f'stack/bet of player {i} unchanged'
    if op == 'kill_hand':
        if c.statuses[i] or any(st.statuses[j] != c.statuses[j] for j in others):
            return f'statuses {st.statuses} -> {c.statuses}'
    if op in ('deal_hole', 'show_or_muck_hole_cards', 'kill_hand'):
        if any(list(st.hole_cards[j]) != list(c.hole_cards[j]) or list(st.hole_card_statuses[j]) != list(c.hole_card_statuses[j])
               for j in others):
            return 'hole cards of other players changed'
    if op == 'deal_hole':
        if len(c.hole_cards[i]) <= len(st.hole_cards[i]):
            return f'player {i} received no card'
        b, a = [len(x) for x in st.hole_dealing_statuses], [len(x) for x in c.hole_dealing_statuses]
        if c.street_index == st.street_index and any(a) and (any(a[j] != b[j] for j in others) or a[i] >= b[i]):
            return f'pending hole cards {b} -> {a}'
    if op == 'show_or_muck_hole_cards' and st.street is not None:
        want = [x for x in st.showdown_indices if x != i]
        if list(c.showdown_indices) != want:
            return f'players still to show {list(st.showdown_indices)} -> {list(c.showdown_indices)}, expected {want}'
    return None


def default_player(op, st):
    if op == 'show_or_muck_hole_cards':
        return st.showdown_index
    if op == 'deal_hole':
        return st.hole_dealee_index
    f = PENDING.get(op)
    if f:
        return next((j for j, x in enumerate(getattr(st, f)) if x), None)
    if op == 'pull_chips':
        return next((j for j, x in enumerate(st.bets) if x), None)
    return None


class ContractMonitor:
    name = 'contract'

    def __init__(self, prop='C08'):
        self.prop = prop

    def _v(self, ctx, what, op, args, detail, shape=''):
        ctx.violation(what, f'{op}{args}: {detail}', path=list(ctx.path),
                      sig=(self.prop, what, op, shape), extra={'candidate': [op, list(args)]})

    def on_menu_error(self, st, ms, exc, ctx):
        from ..explore import query_raised
        query_raised(self.prop, st, exc, ctx)

    def on_state(self, st, ms, menu, ctx):
        snap0 = canon.snapshot(st)
        for op, args, must_refuse in candidates(st):
            ctx.counters['attempts'] += 1
            # 1. query: bool, never raises, pure
            try:
                q = getattr(st, CAN[op])(*args)
            except Exception as exc:
                self._v(ctx, 'query-raised', op, args, f'{type(exc).__name__}: {exc}', type(exc).__name__)
                q = None
            if q is not None and not isinstance(q, bool):
                self._v(ctx, 'query-not-bool', op, args, repr(q))
            if canon.snapshot(st) != snap0:
                self._v(ctx, 'query-mutated', op, args, 'state changed by can_*')
                return
            # 2. verifier: agrees, pure, only ValueError/UserWarning
            try:
                getattr(st, VERIFY[op])(*args)
                v = True
            except OK_EXC:
                v = False
            except Exception as exc:
                self._v(ctx, 'verify-raised', op, args, f'{type(exc).__name__}: {exc}', type(exc).__name__)
                v = None
            if canon.snapshot(st) != snap0:
                self._v(ctx, 'verify-mutated', op, args, 'state changed by verify_*')
                return
            if q is not None and v is not None and q != v:
                self._v(ctx, 'query-vs-verify', op, args, f'can={q} verify={"passes" if v else "raises"}')
            # 3. the operation itself on a copy
            c = canon.clone(st)
            try:
                rec = getattr(c, op)(*args)
                ok = True
            except OK_EXC as exc:
                ok = False
                rec = exc
            except Exception as exc:
                ok = None
                from ..explore import exc_signature, error_shape
                es = exc_signature(exc)
                self._v(ctx, 'operation-raised', op, args, f'{type(exc).__name__}: {exc} at {es[1]}: {es[2]}',
                        '|'.join(es) + '|' + error_shape(ctx.cfg, list(ctx.path) + [(op,) + tuple(args)]))
            if ok is None:
                continue
            if q is not None and ok != q:
                self._v(ctx, 'query-vs-operation', op, args,
                        f'can_*={q} but the operation {"succeeded" if ok else "raised " + type(rec).__name__ + ": " + str(rec)}')
            if ok:
                ctx.counters['accepted'] += 1
                if must_refuse:
                    self._v(ctx, 'invalid-argument-accepted', op, args, f'{must_refuse} accepted -> {rec}', must_refuse)
                k = INDEXED.get(op)
                if k is not None and len(args) > k and args[k] is not None:
                    ctx.counters['explicit_index_accepted'] += 1
                    if getattr(rec, 'player_index', None) != args[k]:
                        self._v(ctx, 'explicit-index-ignored', op, args, f'record names player {getattr(rec, "player_index", None)}')
                    elif len(c.operations) == len(st.operations) + 1:
                        ctx.counters['explicit_index_effects_checked'] += 1
                        if default_player(op, st) != args[k]:
                            ctx.counters['out_of_turn_explicit_index_effects_checked'] += 1
                        bad = served_other(op, st, c, args[k])
                        if bad:
                            self._v(ctx, 'explicit-index-served-another-player', op, args, bad)
            else:
                ctx.counters['refused'] += 1
                if canon.snapshot(c) != snap0:
                    self._v(ctx, 'refusal-mutated', op, args,
                            f'refused with {type(rec).__name__} but changed {canon.diff(st, c)}')


def _j(family, cfg, **kw):
    j = {'family': family, 'cfg': cfg}
    j.update(kw)
    return j


def jobs(tier, seed):
    th = tier == 'thorough'
    out = []
    for warn in ('ignore', 'error'):
        out.append(_j('NT-2-manual', C.nt((3, 4), autos='NONE'), warn=warn, opts={'show': (None, False)}))
        out.append(_j('NT-2-manual-cash', C.nt((2, 3), autos='NONE', mode='cash'), warn=warn,
                      opts={'runouts': (None, 2), 'runout_players': True}))
        out.append(_j('NT-3-manual', C.nt((3, 5, 2), autos='NONE', antes=1), warn=warn, opts={'raises': 'minmax'},
                      dev_bound=None if th else 3))
        semi = ['ANTE_POSTING', 'BET_COLLECTION', 'BLIND_OR_STRADDLE_POSTING', 'CARD_BURNING', 'HOLE_DEALING',
                'BOARD_DEALING', 'CHIPS_PUSHING']
        for stacks in [(2, 4, 3), (3, 2, 2), (2, 2, 5)] + ([(4, 4, 4), (2, 5, 3, 4)] if th else []):
            out.append(_j('tiny-3-cash-runouts', C.custom(stacks, C.TWO_STREET_BURN, deck='KUHN9', hand_types=('KuhnAny', 'JQLow'),
                                                         antes=1, mode='cash', autos=semi), warn=warn,
                          opts={'runouts': (None, 1, 2), 'runout_players': True, 'show': (None, False)},
                          dev_bound=None if th else 3))
            out.append(_j('tiny-3-manual', C.custom(stacks, C.TWO_STREET_BURN, deck='KUHN9', hand_types=('KuhnAny',),
                                                   antes=1, blinds=(1, 2), autos='NONE', boards=2), warn=warn,
                          opts={'players': True}, dev_bound=3 if not th else 5))
        out.append(_j('NT-2-cash-runouts', C.nt((2, 3), mode='cash', autos=semi), warn=warn,
                      opts={'runouts': (None, 1, 2), 'runout_players': True, 'show': (None, False)}))
        out.append(_j('stud-2', C.stud((3, 6), autos='NONE'), warn=warn, dev_bound=2 if not th else 4))
        out.append(_j('draw-2', C.nt((3, 5), autos='NONE', game='NoLimitDeuceToSevenLowballSingleDraw'), warn=warn,
                      opts={'raises': 'minmax', 'discards': ('none', 'first')}, dev_bound=2 if not th else 4))
        out.append(_j('PLO-2boards-cash', C.nt((3, 2), autos=['BET_COLLECTION', 'CARD_BURNING', 'HOLE_DEALING'],
                                                 game='PotLimitOmahaHoldem', boards=2, mode='cash'), warn=warn,
                      opts={'runouts': (None, 2)}))
        if th:
            out.append(_j('FT-3', C.fl((5, 9, 3), autos='NONE'), warn=warn, dev_bound=4))
            out.append(_j('badugi-2', C.fl((3, 5), autos='NONE', game='FixedLimitBadugi'), warn=warn,
                          opts={'discards': ('none', 'first')}, dev_bound=3))
            out.append(_j('razz-3', C.stud((3, 5, 9), autos='NONE', game='FixedLimitRazz'), warn=warn, dev_bound=3))
    for j in out:
        j.setdefault('state_cap', 60000 if th else 6000)
        j.setdefault('time_cap', 1800 if th else 400)
    return out


def run_job(job):
    r, ctx = sx.run(job, [ContractMonitor('C08')], validated='attempts')
    return r


def sanity(agg, counters, fam, tier):
    msgs = []
    for k in ('accepted', 'refused', 'explicit_index_accepted', 'out_of_turn_explicit_index_effects_checked'):
        if not counters.get(k):
            msgs.append(f'{k} == 0')
    return msgs


def replay(doc):
    from ..replay import generic
    from ..alphabet import replay as rp
    env.set_warnings(doc.get('warn', 'ignore'))
    generic(doc)
    st = C.build(doc['cfg'])
    rp(st, doc['events'])
    op, args = doc['candidate']
    args = tuple(args)
    try:
        print('query  ', CAN[op], args, '->', getattr(st, CAN[op])(*args))
    except Exception as exc:
        print('query  ', CAN[op], args, 'RAISED', type(exc).__name__, exc)
    snap = canon.snapshot(st)
    try:
        print('operate', op, args, '->', getattr(st, op)(*args))
    except Exception as exc:
        print('operate', op, args, 'RAISED', type(exc).__name__, exc, '| state changed:', canon.snapshot(st) != snap)
    return 1


def bounds(tier):
    return 'manual NT 2-3 players both modes, cash all-in with run-outs, stud, single draw, double-board PLO; both warning filters'
