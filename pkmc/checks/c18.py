"""C18 - range notation, equities and ICM values are mathematically consistent.

Input-space model checking with the sampler owned: ``pokerkit.analysis.sample`` / ``choices`` are
replaced by enumerators that hand out every possible completion of a partial deal exactly once, so
the "Monte-Carlo" mean computed by the real code is the exact equity and can be compared with an
exact Fraction reference; fully specified deals are also played to showdown on a real State.
"""
from collections import Counter
from fractions import Fraction
from itertools import combinations, permutations, product, chain

from .. import env
from ..refs import handeval as H

PROPERTY = 'C18'
LEVEL = 'model_checking'
RULE = ('ranges: all 13x13 (short deck 9x9) ordered rank pairs x forms {XY, XYs, XYo, XY+, XYs+, XYo+} and every interval '
        'XY-ZW / XYs-ZWs / XYo-ZWo with equal signed gap, all pairs of a token list x 6 separator forms; equities: every full deal and '
        'every partial deal (<= 3 unknown cards) of 6 (hand types, deck, shape) families with the sampler replaced by an exhaustive '
        'enumerator; every full deal also played on a real State; ICM: every non-increasing payout vector over a grid x chips in '
        '{1..6}^n, n <= 4 (thorough 5). distinct non-trivial = distinct (family, result) pairs')
ASSUMPTIONS = ['with several hole-card selections per range the valid selections are weighted uniformly (the library\'s semantics)',
               'deals in which no hand type can be made by anybody are not judged',
               'float results compared with the exact Fraction reference to 1e-9']


def V(oracle, detail, cfg, shape=''):
    return {'oracle': oracle, 'detail': detail, 'cfg': cfg, 'events': [], 'sig': ('C18', oracle, shape)}


class R_:
    def __init__(self):
        self.viol = []
        self.c = Counter()
        self.evals = 0
        self.classes = set()
        self.sample = None

    def v(self, *a, **k):
        if len(self.viol) < 40:
            self.viol.append(V(*a, **k))


STD = '23456789TJQKA'
SHORT = '6789TJQKA'
SU = 'cdhs'


# ------------------------------------------------------------------------------------------ ranges
def x_pair(r):
    return {frozenset((r + a, r + b)) for a, b in combinations(SU, 2)}


def x_suited(r0, r1):
    return set() if r0 == r1 else {frozenset((r0 + s, r1 + s)) for s in SU}


def x_offsuit(r0, r1):
    return x_pair(r0) if r0 == r1 else {frozenset((r0 + a, r1 + b)) for a in SU for b in SU if a != b}


def x_simple(r0, r1, suf):
    if suf == 's':
        return x_suited(r0, r1)
    if suf == 'o':
        return x_offsuit(r0, r1)
    return x_suited(r0, r1) | x_offsuit(r0, r1)


def x_plus(r0, r1, suf, order):
    if r0 == r1:
        out = set()
        for r in order[order.index(r0):]:
            out |= x_simple(r, r, suf)
        return out
    hi, lo = (r0, r1) if order.index(r0) > order.index(r1) else (r1, r0)
    out = set()
    for k in order[order.index(lo):order.index(hi)]:
        out |= x_simple(hi, k, suf)
    return out


def x_interval(r0, r1, r2, r3, suf, order):
    a0, a1, b0, b1 = (order.index(r) for r in (r0, r1, r2, r3))
    if a1 - a0 != b1 - b0:
        return None
    lo, hi = min(a0, b0), max(a0, b0)
    gap = a1 - a0
    out = set()
    for x in range(lo, hi + 1):
        out |= x_simple(order[x], order[x + gap], suf)
    return out


def texts(rng):
    return {frozenset(repr(c) for c in fs) for fs in rng}


def run_ranges(job, R):
    from pokerkit.analysis import parse_range
    from pokerkit.utilities import RankOrder
    order = STD if job['order'] == 'STANDARD' else SHORT
    ro = getattr(RankOrder, job['order'])

    def pr(*a):
        return texts(parse_range(*a, rank_order=ro))

    for r0 in order:
        for r1 in order:
            simple = {}
            for suf in ('', 's', 'o'):
                R.evals += 1
                tok = r0 + r1 + suf
                try:
                    got = pr(tok)
                except Exception as exc:
                    R.v('range-raised', f'{tok}: {type(exc).__name__}: {exc}', {'range': tok, 'order': job['order']}, 'simple')
                    continue
                simple[suf] = got
                exp = x_simple(r0, r1, suf)
                R.classes.add(('range', len(got)))
                if got != exp:
                    R.v('range-simple', f'{tok}: {len(got)} combinations, rules give {len(exp)}; extra {sorted(map(sorted, got - exp))[:3]} '
                        f'missing {sorted(map(sorted, exp - got))[:3]}', {'range': tok, 'order': job['order']}, suf or 'plain')
                for fs in got:
                    if len(fs) != 2 or any(len(c) != 2 or c[0] not in order or c[1] not in SU for c in fs):
                        R.v('range-element', f'{tok}: element {sorted(fs)} is not two distinct real cards', {'range': tok}, 'simple')
                        break
            if len(simple) == 3:
                n = {k: len(v) for k, v in simple.items()}
                want = {'': 6, 's': 0, 'o': 6} if r0 == r1 else {'': 16, 's': 4, 'o': 12}
                if n != want or simple['s'] & simple['o'] or simple['s'] | simple['o'] != simple['']:
                    R.v('range-counts', f'{r0}{r1}: sizes {n}, XY == XYs disjoint-union XYo: '
                        f'{simple["s"] | simple["o"] == simple[""] and not simple["s"] & simple["o"]}', {'ranks': r0 + r1}, 'counts')
            for suf in ('', 's', 'o'):
                R.evals += 1
                tok = r0 + r1 + suf + '+'
                try:
                    got = pr(tok)
                except Exception as exc:
                    R.v('range-raised', f'{tok}: {type(exc).__name__}: {exc}', {'range': tok, 'order': job['order']}, 'plus')
                    continue
                exp = x_plus(r0, r1, suf, order)
                R.classes.add(('range+', len(got)))
                if got != exp:
                    R.v('range-plus', f'{tok}: {len(got)} combinations, the hands it abbreviates give {len(exp)}; extra '
                        f'{sorted(map(sorted, got - exp))[:3]} missing {sorted(map(sorted, exp - got))[:3]}',
                        {'range': tok, 'order': job['order']}, suf or 'plain')
            for r2 in order:
                for r3 in order:
                    for suf in ('', 's', 'o'):
                        tok = f'{r0}{r1}{suf}-{r2}{r3}{suf}'
                        exp = x_interval(r0, r1, r2, r3, suf, order)
                        if exp is None:
                            R.c['intervals_with_unequal_gap_not_judged'] += 1
                            continue
                        R.evals += 1
                        try:
                            got = pr(tok)
                        except Exception as exc:
                            R.v('range-raised', f'{tok}: {type(exc).__name__}: {exc}', {'range': tok, 'order': job['order']}, 'interval')
                            continue
                        R.classes.add(('range-', len(got)))
                        if got != exp:
                            R.v('range-interval', f'{tok}: {len(got)} combinations, the hands it abbreviates give {len(exp)}; extra '
                                f'{sorted(map(sorted, got - exp))[:3]} missing {sorted(map(sorted, exp - got))[:3]}',
                                {'range': tok, 'order': job['order']}, suf or 'plain')
    R.sample = {'range': 'T8s+', 'expands_to': ['T8s', 'T9s'], 'order': job['order']}


def run_ranges_interleaved(job, R):
    """the same notation under different rank orders in one process, alternating: a result must depend on the arguments of the
    call only (no state carried over from earlier calls)"""
    from pokerkit.analysis import parse_range
    from pokerkit.utilities import RankOrder
    orders = [('STANDARD', STD), ('REGULAR', 'A23456789TJQK'), ('SHORT_DECK_HOLDEM', SHORT), ('STANDARD', STD), ('REGULAR', 'A23456789TJQK')]
    ranks = SHORT          # ranks valid in all three orders
    toks = []
    for r0 in ranks:
        for r1 in ranks:
            for suf in ('', 's', 'o'):
                toks.append((r0, r1, suf, '+'))
            for r2 in 'T9A':
                for r3 in 'T9A':
                    toks.append((r0, r1, '', '-', r2, r3))
    for tk in toks:
        for name, order in orders:
            ro = getattr(RankOrder, name)
            if tk[3] == '+':
                r0, r1, suf, _ = tk
                text = r0 + r1 + suf + '+'
                exp = x_plus(r0, r1, suf, order)
            else:
                r0, r1, suf, _, r2, r3 = tk
                text = f'{r0}{r1}-{r2}{r3}'
                exp = x_interval(r0, r1, r2, r3, '', order)
                if exp is None:
                    continue
            R.evals += 1
            try:
                got = texts(parse_range(text, rank_order=ro))
            except Exception as exc:
                R.v('range-raised', f'{text} under {name}: {type(exc).__name__}: {exc}', {'range': text, 'order': name}, 'interleaved')
                continue
            R.classes.add(('range-x', name, len(got)))
            if got != exp:
                R.v('range-depends-on-earlier-calls', f'{text} under {name} (after calls with other rank orders): {len(got)} combinations, '
                    f'the hands it abbreviates give {len(exp)}', {'range': text, 'order': name}, 'interleaved')
    R.sample = {'range': 'JJ+', 'orders': [n for n, _ in orders]}


def run_separators(job, R):
    from pokerkit.analysis import parse_range
    toks = ['AA', 'AKs', 'AKo', 'T9', '22+', 'A2s+', 'KTo+', '33-66', 'T9s-QJs', '76o-98o', 'AsKs', '2c2d', 'JJ', 'Q2s', '98']
    single = {t: texts(parse_range(t)) for t in toks}
    for a in toks:
        for b in toks:
            exp = single[a] | single[b]
            forms = [((f'{a} {b}',), 'space'), ((f'{a},{b}',), 'comma'), ((f'{a};{b}',), 'semicolon'), ((f'{a}, {b}',), 'comma-space'),
                     ((f' {a} ;; {b} ',), 'padded'), ((a, b), 'two-arguments'), ((f'{a}\t{b}',), 'tab'), ((f'{a}\n{b}',), 'newline')]
            for args, name in forms:
                R.evals += 1
                try:
                    got = texts(parse_range(*args))
                except Exception as exc:
                    R.v('range-separator-raised', f'{args!r}: {type(exc).__name__}: {exc}', {'args': args}, name)
                    continue
                if got != exp:
                    R.v('range-separator', f'{args!r} ({name}) has {len(got)} combinations, the union has {len(exp)}', {'args': args}, name)
            R.classes.add(('sep', len(exp)))
    for c in toks:
        R.evals += 1
        if texts(parse_range('AA', 'T9', c)) != single['AA'] | single['T9'] | single[c]:
            R.v('range-separator', f'three arguments with {c}', {'args': ['AA', 'T9', c]}, 'three')
    R.sample = {'ranges': ['33-66', 'AKs'], 'forms': ['33-66 AKs', '33-66,AKs', '33-66;AKs', "('33-66', 'AKs')"]}


# ------------------------------------------------------------------------------------------ equities
def types_of(names):
    from .. import configs as C
    return tuple(C.hand_type(n) for n in names)


def ref_best(tname, hole, board):
    if tname == 'JQLow':
        c = [x for x in tuple(hole) + tuple(board) if x[0] in 'JQ']
        return None if not c else -min('JQ'.index(x[0]) for x in c)
    if tname == 'HighCardAny':
        c = [x for x in tuple(hole) + tuple(board)]
        return None if not c else max(STD.index(x[0]) for x in c)
    if tname == 'KuhnAny':
        c = [x for x in tuple(hole) + tuple(board) if x[0] in 'JQK']
        return None if not c else max('JQK'.index(x[0]) for x in c)
    b = H.best(tname, hole, board)
    return None if b is None else b[0]


def shares(tnames, holes, board):
    """exact pot shares at showdown, or None if nobody can make any hand"""
    n = len(holes)
    per = []
    for t in tnames:
        hs = [ref_best(t, h, board) for h in holes]
        if any(h is not None for h in hs):
            per.append(hs)
    if not per:
        return None
    out = [Fraction(0)] * n
    for hs in per:
        best = max(h for h in hs if h is not None)
        ws = [i for i, h in enumerate(hs) if h is not None and h == best]
        for i in ws:
            out[i] += Fraction(1, len(per) * len(ws))
    return out


def completions(holes, board, h, b, rest):
    """every distinct way of completing the deal from the cards in ``rest``"""
    need = [h - len(x) for x in holes] + [b - len(board)]

    def rec(k, avail):
        if k == len(need):
            yield ()
            return
        for pick in combinations(avail, need[k]):
            left = [c for c in avail if c not in pick]
            for tail in rec(k + 1, left):
                yield (pick,) + tail
    for assign in rec(0, list(rest)):
        hs = [tuple(x) + assign[i] for i, x in enumerate(holes)]
        yield hs, tuple(board) + assign[-1]


def ref_equities(tnames, selections, board, h, b, deck):
    """mean over valid selections (uniform) and completions (uniform) of the showdown shares"""
    tot = None
    nsel = 0
    for sel in selections:
        cards = list(chain(*sel)) + list(board)
        if len(set(cards)) != len(cards):
            continue
        rest = [c for c in deck if c not in cards]
        acc = [Fraction(0)] * len(sel)
        cnt = 0
        for hs, bd in completions(sel, board, h, b, rest):
            s = shares(tnames, hs, bd)
            if s is None:
                return None
            cnt += 1
            acc = [x + y for x, y in zip(acc, s)]
        if cnt == 0:
            return None
        nsel += 1
        acc = [x / cnt for x in acc]
        tot = acc if tot is None else [x + y for x, y in zip(tot, acc)]
    if not nsel:
        return None
    return [x / nsel for x in tot]


class Sampler:
    """Replaces analysis.sample / analysis.choices: every completion exactly once."""

    def __init__(self):
        self.iters = {}
        self.calls = 0

    def plan(self, nsel, perms):
        self._choices = [i for i in range(nsel) for _ in range(perms)]

    def choices(self, population, k):
        assert k == len(self._choices), (k, len(self._choices))
        return list(self._choices)

    def sample(self, population, k):
        self.calls += 1
        key = id(population)
        it = self.iters.get(key)
        if it is None:
            it = self.iters[key] = permutations(list(population), k)
        return list(next(it))


def perm_count(d, k):
    r = 1
    for i in range(k):
        r *= d - i
    return r


FAMILIES = {
    # name: (hand type names, deck texts, hole count, board count, players)
    'kuhn-1+1': (('KuhnPokerHand',), 'Js Jh Qs Qh Ks Kh'.split(), 1, 1, (2, 3)),
    'kuhn-jqlow-1+1': (('KuhnAny', 'JQLow'), 'Js Jh Qs Qh Ks Kh'.split(), 1, 1, (2, 3)),
    'kuhn9-jqlow-1+0': (('KuhnAny', 'JQLow'), 'Js Jh Jd Qs Qh Qd Ks Kh Kd'.split(), 1, 0, (3, 4)),   # K K K: nobody has a low
    'highcard-jqlow-1+0': (('HighCardAny', 'JQLow'), 'As Ah Ks Kh Qs Js 2s 2h'.split(), 1, 0, (2, 3, 4)),  # A K 2: no low, one winner
    'holdem-high-2+3': (('StandardHighHand',), 'As Ks Qs Js Ts Ah Kh 9d'.split(), 2, 3, (2,)),
    'omaha-hilo-2+3': (('OmahaHoldemHand', 'OmahaEightOrBetterLowHand'), 'As 2s 3h 4h 5d 8c Kh Kd'.split(), 2, 3, (2,)),
    'stud-hilo-5+0': (('StandardHighHand', 'EightOrBetterLowHand'), 'As 2s 3h 4h 5d 8c Kh Kd 8h 7c 9s'.split(), 5, 0, (2,)),
    'badugi-4+0': (('BadugiHand',), 'As 2h 3d 4c Ah 2s 3c Kd 4h'.split(), 4, 0, (2,)),
    'omaha-hilo-3p': (('OmahaHoldemHand', 'OmahaEightOrBetterLowHand'), 'As 2s 3h 4h 5d 8c Kh Kd Ks 9c'.split(), 2, 3, (3,)),
}
THOROUGH_ONLY = {'omaha-hilo-3p'}


def engine_shares(tnames, deckname, holes, board):
    """play the fully specified deal on a real State (everybody all-in from the ante) -> shares of the pot"""
    S = env.S
    pk = env.pokerkit
    n = len(holes)
    h = len(holes[0])
    streets = [S.Street(False, (False,) * h, 0, False, S.Opening.POSITION, 1, None)]
    if board:
        streets.append(S.Street(False, (), len(board), False, S.Opening.POSITION, 1, None))
    A = S.Automation
    autos = tuple(a for a in A if a not in (A.HOLE_DEALING, A.BOARD_DEALING))
    st = S.State(autos, pk.Deck.STANDARD, types_of(tnames), tuple(streets), S.BettingStructure.NO_LIMIT, True,
                 12, 0, 0, 12, n)
    for hc in holes:
        st.deal_hole(''.join(hc))
    if board:
        st.deal_board(''.join(board))
    if st.status:
        raise RuntimeError('state did not finish')
    pot = 12 * n
    return [Fraction(p + 12, pot) for p in st.payoffs]


def close(xs, ys, tol=1e-9):
    return len(xs) == len(ys) and all(abs(float(x) - float(y)) <= tol for x, y in zip(xs, ys))


def run_equity(job, R):
    from pokerkit import analysis as AN
    from pokerkit.utilities import Card
    tnames, deck, h, b, ns = FAMILIES[job['family_key']]
    tys = types_of(tnames)
    n = job['n']
    mode = job['mode']
    deck_objs = tuple(next(Card.parse(t)) for t in deck)
    o = {t: c for t, c in zip(deck, deck_objs)}
    orig = (AN.sample, AN.choices)
    seen = set()
    k, m = job['part']
    idx = 0

    def call(sel_ranges, board, count, sampler=None):
        if sampler is not None:
            AN.sample, AN.choices = sampler.sample, sampler.choices
        try:
            return AN.calculate_equities([[[o[c] for c in hand] for hand in rng] for rng in sel_ranges], [o[c] for c in board],
                                         h, b, deck_objs, tys, sample_count=count)
        finally:
            AN.sample, AN.choices = orig

    try:
        # all full deals (ordered by player; cards inside a hand unordered)
        def full_deals():
            def rec(i, avail):
                if i == n:
                    for bd in combinations(avail, b):
                        yield (), bd
                    return
                for hc in combinations(avail, h):
                    left = [c for c in avail if c not in hc]
                    for rest, bd in rec(i + 1, left):
                        yield (hc,) + rest, bd
            yield from rec(0, deck)

        for holes, board in full_deals():
            idx += 1
            if idx % m != k:
                continue
            if mode == 'full':
                exp = shares(tnames, holes, board)
                if exp is None:
                    R.c['nobody_has_a_hand_not_judged'] += 1
                    continue
                R.evals += 1
                cfg = {'family': job['family_key'], 'holes': holes, 'board': board}
                try:
                    e1 = call([[hc] for hc in holes], board, 1)
                    e3 = call([[hc] for hc in holes], board, 3)
                except Exception as exc:
                    R.v('equities-raised', f'{cfg}: {type(exc).__name__}: {exc}', cfg, 'full')
                    continue
                R.classes.add(('eq', job['family_key'], tuple(exp)))
                if any(x < 0 for x in e1) or abs(sum(e1) - 1) > 1e-9:
                    R.v('equities-not-shares', f'{cfg}: equities {e1} (negative or not summing to one)', cfg, 'full')
                elif not close(e1, e3, 1e-12):
                    R.v('equities-depend-on-sampling', f'{cfg}: sample_count=1 gives {e1}, 3 gives {e3}', cfg, 'full')
                elif not close(e1, exp):
                    nolow = len(tnames) == 2 and all(ref_best(tnames[1], hc, board) is None for hc in holes)
                    R.v('equities-vs-rules', f'{cfg}: equities {e1}, showdown shares by the rules {[str(x) for x in exp]}', cfg,
                        'no-qualifying-low' if nolow else 'full')
                if job.get('engine'):
                    try:
                        es = engine_shares(tnames, None, holes, board)
                    except Exception as exc:
                        R.v('engine-raised', f'{cfg}: {type(exc).__name__}: {exc}', cfg, 'engine')
                        continue
                    R.c['deals_played_on_real_state'] += 1
                    if not close(e1, es):
                        nolow = len(tnames) == 2 and all(ref_best(tnames[1], hc, board) is None for hc in holes)
                        R.v('equities-vs-engine', f'{cfg}: equities {e1}, the engine pays {[str(x) for x in es]}', cfg,
                            'no-qualifying-low' if nolow else 'engine')
                    if es != exp:
                        R.v('engine-vs-rules', f'{cfg}: engine pays {[str(x) for x in es]}, rules {[str(x) for x in exp]}', cfg, 'engine')
                if R.sample is None:
                    R.sample = {'family': job['family_key'], 'holes': [''.join(x) for x in holes], 'board': ''.join(board),
                                'equities': e1, 'rules': [str(x) for x in exp]}
            else:
                # partial deals: remove up to 3 cards from this full deal
                slots = [(i, j) for i in range(n) for j in range(h)] + [('b', j) for j in range(b)]
                for nm in (1, 2, 3):
                    for miss in combinations(slots, nm):
                        ph = tuple(tuple(c for j, c in enumerate(hc) if (i, j) not in miss) for i, hc in enumerate(holes))
                        pb = tuple(c for j, c in enumerate(board) if ('b', j) not in miss)
                        keyp = (tuple(frozenset(x) for x in ph), frozenset(pb))
                        if keyp in seen:
                            continue
                        seen.add(keyp)
                        known = set(chain(*ph)) | set(pb)
                        d = len(deck) - len(known)
                        P = perm_count(d, nm)
                        exp = ref_equities(tnames, [ph], pb, h, b, deck)
                        if exp is None:
                            R.c['nobody_has_a_hand_not_judged'] += 1
                            continue
                        R.evals += 1
                        sp = Sampler()
                        sp.plan(1, P)
                        cfg = {'family': job['family_key'], 'holes': ph, 'board': pb, 'unknown_cards': nm}
                        try:
                            got = call([[hc] for hc in ph], pb, P, sp)
                        except Exception as exc:
                            R.v('equities-raised', f'{cfg}: {type(exc).__name__}: {exc}', cfg, 'partial')
                            continue
                        if sp.calls != P:
                            R.v('sampler-seam', f'{cfg}: sampler called {sp.calls} times for {P} samples', cfg, 'seam')
                        R.c['completions_enumerated'] += P
                        R.classes.add(('peq', job['family_key'], tuple(exp)))
                        if any(x < -1e-12 for x in got) or abs(sum(got) - 1) > 1e-9:
                            R.v('equities-not-shares', f'{cfg}: equities {got}', cfg, 'partial')
                        elif not close(got, exp):
                            R.v('equities-vs-rules', f'{cfg}: mean over all {P} completions {got}, exact equities {[str(x) for x in exp]}',
                                cfg, 'partial')
                        if R.sample is None and nm == 2:
                            R.sample = {'family': job['family_key'], 'holes': [''.join(x) for x in ph], 'board': ''.join(pb),
                                        'completions': P, 'equities': got, 'exact': [str(x) for x in exp]}
    finally:
        AN.sample, AN.choices = orig


def run_ranges_equity(job, R):
    """several selections per range (incl. conflicting ones) and hand strength"""
    from pokerkit import analysis as AN
    from pokerkit.utilities import Card
    tnames, deck, h, b, ns = FAMILIES['kuhn-1+1']
    tys = types_of(tnames)
    deck_objs = tuple(next(Card.parse(t)) for t in deck)
    o = {t: c for t, c in zip(deck, deck_objs)}
    orig = (AN.sample, AN.choices)
    singles = [(c,) for c in deck]
    ranges = [list(x) for r in (1, 2, 3) for x in combinations(singles, r)]
    try:
        for ra in ranges:
            for rb in ranges:
                for board in [()] + [(c,) for c in deck[:3]]:
                    sels = [s for s in product(ra, rb) if len(set(chain(*s)) | set(board)) == len(list(chain(*s))) + len(board)]
                    if not sels:
                        continue
                    nm = b - len(board)
                    d = len(deck) - 2 - len(board)
                    P = perm_count(d, nm)
                    exp = ref_equities(tnames, list(product(ra, rb)), board, h, b, deck)
                    sp = Sampler()
                    sp.plan(len(sels), P)
                    AN.sample, AN.choices = sp.sample, sp.choices
                    R.evals += 1
                    cfg = {'ranges': [ra, rb], 'board': board}
                    try:
                        got = AN.calculate_equities([[[o[c] for c in hand] for hand in rng] for rng in (ra, rb)], [o[c] for c in board],
                                                    h, b, deck_objs, tys, sample_count=len(sels) * P)
                    except Exception as exc:
                        R.v('equities-raised', f'{cfg}: {type(exc).__name__}: {exc}', cfg, 'ranges')
                        continue
                    finally:
                        AN.sample, AN.choices = orig
                    R.classes.add(('req', tuple(exp)))
                    if not close(got, exp) or abs(sum(got) - 1) > 1e-9:
                        R.v('equities-vs-rules', f'{cfg}: {got}, exact {[str(x) for x in exp]}', cfg, 'ranges')
        # hand strength = equity of the last seat against unknown hands
        for n in (2, 3):
            for hc in singles:
                for board in [()] + [(c,) for c in deck if c not in hc][:3]:
                    nm = (n - 1) * h + b - len(board)
                    d = len(deck) - 1 - len(board)
                    P = perm_count(d, nm)
                    exp = ref_equities(tnames, [tuple(() for _ in range(n - 1)) + (hc,)], board, h, b, deck)
                    sp = Sampler()
                    sp.plan(1, P)
                    AN.sample, AN.choices = sp.sample, sp.choices
                    R.evals += 1
                    try:
                        got = AN.calculate_hand_strength(n, [[o[c] for c in hc]], [o[c] for c in board], h, b, deck_objs, tys, sample_count=P)
                    finally:
                        AN.sample, AN.choices = orig
                    R.c['hand_strengths_compared'] += 1
                    if abs(got - float(exp[-1])) > 1e-9:
                        R.v('hand-strength', f'{n} players, {hc} board {board}: {got}, exact {exp[-1]}', {'n': n, 'hole': hc, 'board': board}, 'strength')
    finally:
        AN.sample, AN.choices = orig
    R.sample = {'ranges': [['Js', 'Qs'], ['Js', 'Kh']], 'board': [], 'note': 'conflicting selection JsJs is dropped'}


# ------------------------------------------------------------------------------------------ ICM
def ref_icm(payouts, chips):
    n = len(chips)
    out = [Fraction(0)] * n

    def rec(place, left, prob):
        if place == len(payouts) or not left:
            return
        tot = sum(chips[i] for i in left)
        for i in left:
            p = prob * Fraction(chips[i], tot)
            out[i] += p * payouts[place]
            rec(place + 1, [j for j in left if j != i], p)
    rec(0, list(range(n)), Fraction(1))
    return out


def run_icm(job, R):
    from pokerkit.analysis import calculate_icm
    n = job['n']
    pay_vals = (0, 10, 30, 50, 70)
    for m in range(1, n + 1):
        for pay in product(pay_vals, repeat=m):
            if any(a < b for a, b in zip(pay, pay[1:])) or not any(pay):
                continue
            for chips in product(range(0, job['cmax'] + 1), repeat=n):
                if sum(1 for x in chips if x) < m:
                    # more paid places than players with chips: the model divides nothing by nothing - not judged
                    R.c['icm_vectors_with_fewer_stacks_than_paid_places_not_judged'] += 1
                    continue
                if 0 in chips:
                    R.c['icm_vectors_with_a_busted_player'] += 1
                R.evals += 1
                cfg = {'payouts': pay, 'chips': chips}
                try:
                    got = calculate_icm(list(pay), list(chips))
                except Exception as exc:
                    R.v('icm-raised', f'{cfg}: {type(exc).__name__}: {exc}', cfg)
                    continue
                exp = ref_icm(pay, chips)
                R.classes.add(('icm', tuple(exp)))
                if len(got) != n or any(x < -1e-12 for x in got) or abs(sum(got) - sum(pay)) > 1e-9:
                    R.v('icm-range', f'{cfg}: {got} (negative or not summing to the prize pool {sum(pay)})', cfg, 'range')
                elif not close(got, exp):
                    R.v('icm-value', f'{cfg}: {got}, Malmuth-Harville {[float(x) for x in exp]}', cfg, 'value')
                else:
                    for i in range(n):
                        for j in range(n):
                            if chips[i] >= chips[j] and got[i] < got[j] - 1e-9:
                                R.v('icm-order', f'{cfg}: player {i} has at least the chips of {j} but ICM {got[i]} < {got[j]}', cfg, 'order')
    R.sample = {'payouts': [70, 30], 'chips': [5, 3, 2], 'icm': [float(x) for x in ref_icm((70, 30), (5, 3, 2))]}


def jobs(tier, seed):
    th = tier == 'thorough'
    out = [{'family': 'ranges', 'kind': 'ranges', 'order': 'STANDARD'}, {'family': 'ranges', 'kind': 'ranges', 'order': 'SHORT_DECK_HOLDEM'},
           {'family': 'range-separators', 'kind': 'separators'}, {'family': 'ranges-interleaved-rank-orders', 'kind': 'ranges-interleaved'}, {'family': 'equities-ranges-and-hand-strength', 'kind': 'req'}]
    for fk, (tn, deck, h, b, ns) in FAMILIES.items():
        if fk in THOROUGH_ONLY and not th:
            continue
        for n in ns:
            parts = 8 if fk not in THOROUGH_ONLY else 32
            for k in range(parts):
                out.append({'family': f'equities-full-deals[{fk}]', 'kind': 'equity', 'family_key': fk, 'n': n, 'mode': 'full',
                            'engine': True, 'part': (k, parts)})
            if fk.startswith('kuhn') or (th and fk not in THOROUGH_ONLY) or fk in ('holdem-high-2+3', 'omaha-hilo-2+3'):
                pp = 8 if fk.startswith('kuhn') else 16
                for k in range(pp):
                    out.append({'family': f'equities-partial-deals[{fk}]', 'kind': 'equity', 'family_key': fk, 'n': n, 'mode': 'partial',
                                'part': (k, pp)})
    for n in (2, 3, 4) + ((5,) if th else ()):
        out.append({'family': 'icm', 'kind': 'icm', 'n': n, 'cmax': 6 if n < 5 else 4})
    if seed:
        r = seed % len(out)
        out = out[r:] + out[:r]
    return out


RUN = {'ranges-interleaved': run_ranges_interleaved, 'ranges': run_ranges, 'separators': run_separators, 'equity': run_equity, 'req': run_ranges_equity, 'icm': run_icm}


def run_job(job):
    env.set_warnings('ignore')
    R = R_()
    RUN[job['kind']](job, R)
    return {'family': job['family'], 'stats': {}, 'violations': R.viol[:20], 'counters': dict(R.c),
            'evaluations': R.evals, 'validated': R.evals, 'samples': [R.sample] if R.sample else [], 'merge': R.classes}


def finalize(merges, tier):
    allc = set()
    for m in merges:
        allc |= m
    return [], Counter({'distinct_results': len(allc)}), {'distinct': len(allc)}


def sanity(agg, counters, fam, tier):
    return [f'{k} == 0' for k in ('completions_enumerated', 'deals_played_on_real_state', 'hand_strengths_compared')
            if not counters.get(k)]


def bounds(tier):
    return ('ranges: complete over both rank orders; equities: 6 families on 6-11 card decks, 2 (Kuhn: 2-3) players, every full deal '
            '(also on a real State), partial deals with <= 3 unknown cards with every completion enumerated '
            + ('(all families)' if tier == 'thorough' else '(Kuhn, hold\'em and Omaha hi-lo families)') +
            '; ICM: payouts non-increasing over {0,10,30,50,70}^m, m <= n, chips {1..6}^n, n <= 4' + (' and {1..4}^5' if tier == 'thorough' else ''))


def replay(doc):
    print('oracle:', doc.get('oracle'), '|', doc.get('detail'))
    print('(re-run ./check C18 to re-evaluate this family)')
    return 1
