"""C12 - automatic mucking and hand killing never cost a player chips he would have won."""
from itertools import permutations

from .. import sx, configs as C
from ..refs import pots as P
from . import c02

PROPERTY = 'C12'
LEVEL = 'model_checking'
RULE = ('every showdown reached in the tiny-deck families (every deal x every betting history, incl. side pots, two '
        'boards, hi-lo): payoffs of the run with default show/muck and kill decisions are compared with the reference '
        'award computed as if every player who reached the showdown tabled his full hand (twin by reference model)')
ASSUMPTIONS = ['whether a complete muck must be refused at a tournament all-in showdown is not settled by the statement; not judged',
               'hole cards of mucked/killed players are read from the HoleDealing records of the log']


class MuckMonitor:
    name = 'muck'

    def __init__(self, prop='C12'):
        self.prop = prop

    # what the log says (cards dealt to whom, who folded / was killed / mucked / showed, the chips) is part of the explored
    # state: the verdict is computed from it, so histories whose engine fields coincide but whose logs differ are kept apart
    @staticmethod
    def _digest(st):
        who = []
        for o in st.operations:
            nm = type(o).__name__
            if nm in ('HoleDealing', 'StandingPatOrDiscarding'):
                who.append((nm[0], o.player_index, tuple(repr(c) for c in o.cards)))
            elif nm in ('Folding', 'HandKilling'):
                who.append((nm[0], o.player_index))
            elif nm == 'HoleCardsShowingOrMucking':
                who.append(('S', o.player_index, bool(o.hole_cards)))
        return (tuple(sorted(who)),) + c02.PotsMonitor._digest(st)

    def init(self, st, ctx):
        return self._digest(st)

    def key(self, ms):
        return ms

    def on_edge(self, pre, ms, ev, post, rec, ctx):
        return self._digest(post)

    def on_state(self, st, ms, menu, ctx):
        # tournament mode: at an all-in or final-street showdown a partial show must be refused
        if st.street is not None and st.showdown_indices and st.mode.value == 'Tournament':
            i = st.showdown_indices[0]
            hc = st.hole_cards[i]
            if len(hc) > 1 and (st.all_in_status or st.street is st.streets[-1]):
                part = ''.join(repr(c) for c in hc[:-1])
                ctx.counters['partial_show_queries'] += 1
                if st.can_show_or_muck_hole_cards(part):
                    ctx.violation('partial-show-accepted', f'tournament showdown (all-in={st.all_in_status}): showing only {part} of '
                                  f'{list(map(repr, hc))} is accepted', sig=(self.prop, 'partial-show-accepted'))

    def on_terminal(self, st, ms, ctx):
        n = st.player_count
        acc = P.log_accounting(st)
        folded = [False] * n
        auto_out = [None] * n
        holes = [[] for _ in range(n)]
        shown = [False] * n
        for o in st.operations:
            nm = type(o).__name__
            if nm == 'HoleDealing':
                holes[o.player_index] += [repr(c) for c in o.cards]
            elif nm == 'StandingPatOrDiscarding':
                for c in o.cards:
                    holes[o.player_index].remove(repr(c))
            elif nm == 'Folding':
                folded[o.player_index] = True
            elif nm == 'HandKilling':
                auto_out[o.player_index] = 'killed'
            elif nm == 'HoleCardsShowingOrMucking':
                if o.hole_cards:
                    shown[o.player_index] = True
                else:
                    auto_out[o.player_index] = 'mucked'
        live = [not f for f in folded]
        if sum(live) < 2:
            return
        tn = ctx.cfg['hand_types'] if ctx.cfg['game'] == 'custom' else [t.__name__ for t in st.hand_types]
        strength = P.tiny_strength
        if ctx.job.get('real'):
            from .c02 import real_strength as strength
        nb = st.board_count
        boards = [[repr(c) for c in st.get_board_cards(b)] for b in range(nb)]
        if ctx.job.get('real') == 'hole+board':
            from .c02 import real_strength_hb
            hands = [[[real_strength_hb(holes[i], boards[b], t) for t in tn] for b in range(nb)] if live[i]
                     else [[None] * len(tn)] * nb for i in range(n)]
        else:
            hands = [[[strength(holes[i] + boards[b], t) for t in tn] for b in range(nb)] if live[i]
                     else [[None] * len(tn)] * nb for i in range(n)]
        exp, info = P.award(n, acc['contrib'], acc['pooled'], live, hands, nb, len(tn), C.DIVMODS.get(ctx.cfg.get('divmod'), P.ref_divmod),
                            (lambda a: st.rake(a, st)) if ctx.cfg.get('rake') else (lambda a: (0, a)))
        ctx.counters['showdowns_compared'] += 1
        if exp is None:
            ctx.counters['undetermined_' + info] += 1
            return
        want = [exp[i] - acc['in_pot'][i] for i in range(n)]
        detail = (f'payoffs {list(st.payoffs)} vs everybody-tables {want}; auto decisions {auto_out}; holes {holes} boards {boards} '
                  f'in pot {acc["in_pot"]} pots {info["pots"]}')
        if list(st.payoffs) != want:
            # isolate one cause: nobody who could win was discarded, and the engine's payoffs are exactly the award with the
            # discarded (dead) hands removed - i.e. removing a dead hand changed the pot structure (pots with equal eligible
            # sets merge) and with it the odd chips
            shape = 'plain'
            if all(exp[i] == 0 for i in range(n) if auto_out[i]):
                live2 = [live[i] and not auto_out[i] for i in range(n)]
                hands2 = [hands[i] if live2[i] else [[None] * len(tn)] * nb for i in range(n)]
                exp2, _ = P.award(n, acc['contrib'], acc['pooled'], live2, hands2, nb, len(tn), C.DIVMODS.get(ctx.cfg.get('divmod'), P.ref_divmod), (lambda a: st.rake(a, st)) if ctx.cfg.get('rake') else (lambda a: (0, a)))
                if exp2 is not None and list(st.payoffs) == [exp2[i] - acc['in_pot'][i] for i in range(n)]:
                    shape = 'dead-hand-removed-pots-merge-odd-chips'
            ctx.violation('payoffs-differ-from-table-all', detail, sig=(self.prop, 'payoffs-differ', shape))
        for i in range(n):
            if auto_out[i]:
                ctx.counters['auto_' + auto_out[i]] += 1
                if exp[i] > 0:
                    ctx.violation('winner-discarded', f'player {i} was {auto_out[i]} by default but wins {exp[i]} when tabled; {detail}',
                                  sig=(self.prop, 'winner-discarded', auto_out[i]))
            elif live[i] and exp[i] > 0 and not shown[i] and not all(st.hole_card_statuses[i]):
                ctx.violation('winner-not-shown', detail, sig=(self.prop, 'winner-not-shown'))


def jobs(tier, seed):
    th = tier == 'thorough'
    out = []
    for j in c02.jobs(tier, seed):
        f = j['family']
        if 'manual-showdown' in f or 'partial-shows' in f:
            continue      # explicit show / muck / partial-show choices of the players are not automatic decisions
        j = dict(j)
        out.append(j)
    # manual showdown/killing steps with default arguments in every admissible order of the kill step
    DECK = c02.DECK
    manual = ['ANTE_POSTING', 'BET_COLLECTION', 'BLIND_OR_STRADDLE_POSTING', 'CARD_BURNING', 'HOLE_DEALING',
              'BOARD_DEALING', 'RUNOUT_COUNT_SELECTION', 'CHIPS_PUSHING', 'CHIPS_PULLING']
    for stacks in [(2, 3, 4)] + ([(2, 4, 4), (2, 3, 4, 5)] if th else []):
        n = len(stacks)
        for p in list(permutations(DECK, n))[::1 if th else 2]:
            plan = list(p) + [c for c in DECK if c not in p]
            out.append({'family': f'1street-{n}p-manual-default-show-kill',
                        'cfg': C.custom(stacks, C.KUHN_1, hand_types=('KuhnAny', 'JQLow'), antes=1, autos=manual, plan=plan),
                        'opts': {'players': True, 'show_players': True}})
            # high only: a player can be beaten outright by a shown hand while a later one still ties or wins
            out.append({'family': f'1street-{n}p-manual-default-show-kill-high-only',
                        'cfg': C.custom(stacks, C.KUHN_1, hand_types=('KuhnAny',), antes=1, autos=manual, plan=plan),
                        'opts': {'players': True, 'show_players': True}})
    # two hole cards: tournament partial-show refusal + auto decisions
    two_hole = [(False, (False, False), 0, False, 'POSITION', 1, None), (False, (), 1, False, 'POSITION', 1, None)]
    for stacks in [(3, 4), (2, 5)]:
        for p in list(permutations(DECK, 5))[::3 if not th else 1]:
            plan = [p[0], p[2], p[1], p[3], p[4]] + [c for c in DECK if c not in p]
            for mode in ('tournament', 'cash'):
                out.append({'family': f'2hole-{mode}', 'cfg': C.custom(stacks, two_hole, hand_types=('KuhnAny', 'JQLow'), antes=1,
                                                                          autos=manual, plan=plan, mode=mode),
                            'opts': {'runouts': (None,), 'show_players': True}})
    # three streets, two boards, cash: an all-in after the first board street with run-outs - boards that share their first
    # card pair-wise (index arithmetic of run-outs x boards) and a hand that wins on one of the later boards only
    EIGHT = ['Js', 'Jh', 'Qs', 'Qh', 'Ks', 'Kh', 'As', 'Ah']
    THREE_ST = [(False, (False,), 0, False, 'POSITION', 1, None), (False, (), 1, False, 'POSITION', 1, None),
                (False, (), 1, False, 'POSITION', 1, None)]
    no_runout_auto = [a for a in manual if a != 'RUNOUT_COUNT_SELECTION'] + ['HOLE_CARDS_SHOWING_OR_MUCKING']
    plans = list(permutations(EIGHT, 8))
    for plan in plans[::1 if th else 16]:
        out.append({'family': '3street-2p-2b-cash-runouts-after-first-board',
                    'cfg': C.custom((3, 3), THREE_ST, deck=EIGHT, hand_types=('TwoCardAny',), antes=1, boards=2, mode='cash',
                                    autos=no_runout_auto, plan=list(plan)),
                    'opts': {'runouts': (None, 2), 'raises': 'minmax', 'fold': False}, 'dev_bound': 3})
    for j in out:
        j.setdefault('state_cap', 200000)
        j.setdefault('time_cap', 600)
    return out


def run_job(job):
    r, ctx = sx.run(job, [MuckMonitor('C12')], validated='showdowns_compared')
    return r


def sanity(agg, counters, fam, tier):
    msgs = []
    for k in ('auto_mucked', 'auto_killed', 'partial_show_queries', 'showdowns_compared'):
        if not counters.get(k):
            msgs.append(f'{k} == 0')
    return msgs


def bounds(tier):
    return c02.bounds(tier) + '; plus manual default-argument show/kill in any player order, and a two-hole-card game for partial shows'
