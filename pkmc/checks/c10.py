"""C10 - dealing follows the street definitions."""
from .. import sx, configs as C
from ..explore import ErrorsMonitor
from ..refs.dealing import DealingMonitor

PROPERTY = 'C10'
LEVEL = 'model_checking'
RULE = ('every history (k deviations from the default betting action; all dealing interleavings: default, several cards '
        'per call, explicit dealee; discards none/one/two/all) of flop, stud, draw and custom street lists with 2-4 players '
        'and 1-2 boards: an independent per-street dealing protocol (burn first iff prescribed, cards and facing per live '
        'player, cards per board, draws return what was discarded, hole-to-board fallback) is stepped on every logged '
        'operation and compared with the hands at every betting state')
ASSUMPTIONS = ['admissible decks only (deck >= cards that can be in hands at once + one burn + one board card)',
               'the number of cards a default deal_hole() returns per call is not constrained (only totals and facing)']

DEAL_OPS = ('burn_card', 'deal_hole', 'deal_board', 'stand_pat_or_discard')


def _j(family, cfg, **kw):
    j = {'family': family, 'cfg': cfg}
    j.update(kw)
    return j


MAN = ['ANTE_POSTING', 'BET_COLLECTION', 'BLIND_OR_STRADDLE_POSTING', 'HOLE_CARDS_SHOWING_OR_MUCKING', 'HAND_KILLING',
       'CHIPS_PUSHING', 'CHIPS_PULLING']


def jobs(tier, seed):
    th = tier == 'thorough'
    out = []
    k = 2 if not th else 3
    rich = {'deal': 'rich', 'raises': 'min'}
    for autos, o, kk in [(MAN, rich, k), ('ALL', {'raises': 'min'}, k + 1)]:
        tag = 'manual' if autos is MAN else 'auto'
        for stacks in [(3, 4), (3, 5, 4)] + ([(3, 5, 4, 6)] if th else []):
            for boards in (1, 2):
                out.append(_j(f'NT-{tag}', C.nt(stacks, autos=autos, boards=boards), opts=o, dev_bound=kk))
            out.append(_j(f'PO-{tag}', C.nt(stacks, autos=autos, game='PotLimitOmahaHoldem'), opts=o, dev_bound=kk))
            out.append(_j(f'stud-{tag}', C.stud(stacks, autos=autos), opts=o, dev_bound=kk))
            out.append(_j(f'razz-{tag}', C.stud(stacks, autos=autos, game='FixedLimitRazz'), opts=o, dev_bound=kk))
            oo = dict(o)
            oo['discards'] = ('none', 'first', 'two', 'all')
            out.append(_j(f'single-draw-{tag}', C.nt(stacks, autos=autos, game='NoLimitDeuceToSevenLowballSingleDraw'), opts=oo, dev_bound=kk))
            out.append(_j(f'triple-draw-{tag}', C.fl(stacks, autos=autos, game='FixedLimitDeuceToSevenLowballTripleDraw'), opts=oo, dev_bound=kk))
            out.append(_j(f'badugi-{tag}', C.fl(stacks, autos=autos, game='FixedLimitBadugi'), opts=oo, dev_bound=kk))
        # custom street lists: hole and board on one street, mixed facing, no burn, draw with up-cards
        mixed = [(False, (False, True), 1, False, 'POSITION', 1, None), (True, (True,), 2, False, 'POSITION', 1, None),
                 (False, (), 0, True, 'POSITION', 1, None)]
        for stacks in [(3, 4), (3, 4, 5)]:
            for boards in (1, 2):
                if boards == 2 and len(stacks) == 3 and autos is MAN and not th:
                    continue
                oo = dict(o)
                oo['discards'] = ('none', 'first', 'all')
                out.append(_j(f'custom-mixed-{tag}', C.custom(stacks, mixed, deck='STANDARD', hand_types=('HighCardAny',),
                                                             antes=1, autos=autos, boards=boards), opts=oo, dev_bound=kk))
        # 20-card deck stud: replenish and hole-to-board fallback
        for stacks in [(20, 20, 20), (9, 20, 14)]:
            out.append(_j(f'stud-royal-deck-{tag}', C.stud(stacks, deck_override='ROYAL_POKER', autos=autos),
                          opts={'raises': 'min', 'deal': o.get('deal', 'default')}, dev_bound=kk - 1 if autos is MAN else kk))
    for n in (7, 8):
        out.append(_j(f'stud-{n}-handed', C.stud((40,) * n), dev_bound=1, opts={'raises': 'min'}))
    for j in out:
        j.setdefault('state_cap', 500000 if th else 80000)
        j.setdefault('time_cap', 1800 if th else 400)
    return out


def run_job(job):
    r, ctx = sx.run(job, [DealingMonitor('C10'), ErrorsMonitor('C10', DEAL_OPS)], validated='dealing_ops_checked')
    return r


def sanity(agg, counters, fam, tier):
    return [f'{k} == 0' for k in ('hole_to_board_fallbacks', 'discards', 'round_starts_checked', 'street_instances')
            if not counters.get(k)]


def bounds(tier):
    return 'flop/stud/draw/custom street lists, 2-3 players (thorough 4), boards 1-2, k deviations (see families), 20-card-deck stud, 7-8 handed stud'
