"""C19 - equivalent ways of writing chips and cards mean the same thing.

Input-space model checking: every representation of every small value vector, every card text
form, every layout of a validity grid and every (amount, divisor / rake parameter) of a grid is
pushed through the real ``clean_values`` / ``Card.parse`` / ``Card.clean`` / ``State`` constructor
/ game factories / ``divmod`` / ``rake`` and compared with the explicit form, an independently
written validity predicate, or the sum identity.
"""
from collections import Counter
from decimal import Decimal
from fractions import Fraction
from itertools import product, permutations

from .. import env, canon

PROPERTY = 'C19'
LEVEL = 'model_checking'
RULE = ('(a) value vectors in {0..3}^n, n<=4, in every form (scalar when uniform, list, tuple, generator, range-like iterator, '
        'trailing zeros dropped, over-long, mapping with positive / negative / mixed keys with and without zero entries) through '
        'clean_values and as antes / blinds / stacks of real States and game factories; (b) every card of the 52-card deck and the '
        'unknown cards in every text form, all ordered pairs and all triples over a sub-deck in every container / separator form, '
        'and as arguments of State operations; (c) every layout of antes {-1,0,1}^n x blinds {0,1,2,-2}^n x bring-in {0,1,2} x '
        'stacks {0,1,5}^n x n {1,2,3} x boards {0,1}; (d) divmod on amounts 0..60 x divisors 1..6 and rake on amounts x '
        'percentages x caps, for int / Fraction / float / Decimal. distinct non-trivial = distinct (family, normalised result)')
ASSUMPTIONS = ['mapping keys outside [-n, n) are outside the documented forms (IndexError there is not judged)',
               'float / Decimal sums are compared with tolerance 1e-9']


def V(oracle, detail, cfg, shape=''):
    return {'oracle': oracle, 'detail': detail, 'cfg': cfg, 'events': [], 'sig': ('C19', oracle, shape)}


# ------------------------------------------------------------------------------------------ forms
def forms_of(vec):
    """(name, factory) pairs; each factory builds a fresh object denoting ``vec`` for len(vec) seats."""
    n = len(vec)
    out = [('list', lambda: list(vec)), ('tuple', lambda: tuple(vec)), ('generator', lambda: (x for x in vec)),
           ('iterator', lambda: iter(list(vec))),
           ('over-long', lambda: list(vec) + [7, 7])]
    if len(set(vec)) == 1:
        out.append(('scalar', lambda: vec[0]))
    k = n
    while k and vec[k - 1] == 0:
        k -= 1
    if k < n:
        out.append(('trailing-zeros-dropped', lambda: list(vec[:k])))
    out.append(('mapping+', lambda: {i: v for i, v in enumerate(vec)}))
    out.append(('mapping+nozero', lambda: {i: v for i, v in enumerate(vec) if v}))
    out.append(('mapping-', lambda: {i - n: v for i, v in enumerate(vec)}))
    out.append(('mapping-nozero', lambda: {i - n: v for i, v in enumerate(vec) if v}))
    out.append(('mapping-mixed', lambda: {(i if i % 2 else i - n): v for i, v in enumerate(vec) if v}))
    out.append(('mapping-reversed-insertion', lambda: {i: v for i, v in reversed(list(enumerate(vec)))}))
    return out


def jobs(tier, seed):
    th = tier == 'thorough'
    out = [{'family': 'clean_values', 'kind': 'values', 'nmax': 4, 'vals': (0, 1, 2, 3)}]
    for n in (2, 3, 4):
        out.append({'family': 'state-construction-forms', 'kind': 'stateforms', 'n': n, 'vals': (0, 1, 2) if n == 4 and not th else (0, 1, 2, 3)})
    out.append({'family': 'game-factory-forms', 'kind': 'gameforms'})
    out.append({'family': 'game-definition-reuse', 'kind': 'gamereuse'})
    out.append({'family': 'card-text', 'kind': 'cards1'})
    for k in range(8):
        out.append({'family': 'card-sequences', 'kind': 'cards2', 'part': (k, 8)})
    out.append({'family': 'card-arguments-of-operations', 'kind': 'cardops'})
    out.append({'family': 'card-arguments-of-hand-evaluation', 'kind': 'handforms'})
    for n in (1, 2, 3):
        antes_all = list(product((-1, 0, 1), repeat=n))
        for a in antes_all:
            out.append({'family': 'layout-validity', 'kind': 'layout', 'n': n, 'antes': a})
    out.append({'family': 'layout-validity', 'kind': 'layout-scalar'})
    for kind in ('int', 'fraction', 'float', 'decimal'):
        out.append({'family': 'divmod-rake', 'kind': 'arith', 'chips': kind})
    if seed:
        r = seed % len(out)
        out = out[r:] + out[:r]
    return out


# ------------------------------------------------------------------------------------------ (a) values
def run_values(job, R):
    from pokerkit.utilities import clean_values
    for n in range(1, job['nmax'] + 1):
        for vec in product(job['vals'], repeat=n):
            for name, f in forms_of(vec):
                R.evals += 1
                try:
                    got = clean_values(f(), n)
                except Exception as exc:
                    R.viol.append(V('clean_values-raised', f'{name} form of {vec}: {type(exc).__name__}: {exc}',
                                    {'vec': vec, 'form': name}, name))
                    continue
                R.classes.add(('values', tuple(got)))
                if tuple(got) != tuple(vec) or not isinstance(got, tuple):
                    R.viol.append(V('clean_values', f'{name} form of {vec} cleaned to {got!r}', {'vec': vec, 'form': name}, name))
    # the single-number form for every chip type the library documents (int, float, Fraction, Decimal)
    for x in (2, 0, 0.25, 1.5, Fraction(1, 2), Fraction(3), Decimal('0.25'), Decimal('3'), Decimal('1.50')):
        for n in (1, 2, 3, 4):
            for name, f in forms_of((x,) * n):
                R.evals += 1
                try:
                    got = clean_values(f(), n)
                except Exception as exc:
                    R.viol.append(V('clean_values-raised', f'{name} form of {n} x {x!r}: {type(exc).__name__}: {exc}',
                                    {'value': repr(x), 'n': n, 'form': name}, name + '/' + type(x).__name__))
                    continue
                R.classes.add(('values-typed', type(x).__name__, n))
                if tuple(got) != (x,) * n or any(type(g) is not type(x) for g in got):
                    R.viol.append(V('clean_values', f'{name} form of {n} x {x!r} cleaned to {got!r}', {'value': repr(x), 'n': n, 'form': name},
                                    name + '/' + type(x).__name__))
    for bad in (None, object()):
        R.evals += 1
        try:
            clean_values(bad, 2)
            R.viol.append(V('clean_values-accepts-garbage', f'{bad!r} accepted', {'value': repr(bad)}))
        except ValueError:
            pass
        except Exception as exc:
            R.viol.append(V('clean_values-raised', f'{bad!r}: {type(exc).__name__}', {'value': repr(bad)}, 'garbage'))
    R.sample = {'vector': [0, 2, 0, 1], 'forms': [nm for nm, _ in forms_of((0, 2, 0, 1))]}


def layout_valid(n, antes, blinds, bring_in, stacks, boards, min_bet=2):
    """The documented validity predicate, written out independently."""
    if n < 2:
        return False
    if any(a < 0 for a in antes) or bring_in < 0:
        return False
    if not any(antes) and not any(blinds) and not bring_in:
        return False
    if any(s <= 0 for s in stacks):
        return False
    if any(blinds) and bring_in:
        return False
    if bring_in >= min_bet:
        return False
    if boards <= 0:
        return False
    return True


def mk_state(antes, blinds, bring_in, stacks, n, boards=1, autos=()):
    S = env.S
    pk = env.pokerkit
    return S.State(autos, pk.Deck.STANDARD, (pk.StandardHighHand,),
                   (S.Street(False, (False, False), 0, False, S.Opening.POSITION, 2, None),
                    S.Street(True, (), 3, False, S.Opening.POSITION, 2, None)),
                   S.BettingStructure.NO_LIMIT, True, antes, blinds, bring_in, stacks, n, starting_board_count=boards)


def try_state(*a, **k):
    try:
        return mk_state(*a, **k), None
    except ValueError as exc:
        return None, ('ValueError', str(exc))
    except Exception as exc:
        return None, (type(exc).__name__, str(exc))


def run_stateforms(job, R):
    n = job['n']
    vals = job['vals']
    autos = tuple(env.S.Automation)
    for which in ('antes', 'blinds', 'stacks'):
        for vec in product(vals, repeat=n):
            base = {'antes': (1,) * n, 'blinds': (0,) * n, 'stacks': (9,) * n}
            if which == 'antes':
                base['blinds'] = (1, 2) + (0,) * (n - 2)
            base[which] = vec
            ref, rerr = try_state(list(base['antes']), list(base['blinds']), 0, list(base['stacks']), n, autos=())
            refk = None if ref is None else canon.snapshot(ref)
            for name, f in forms_of(vec):
                if which == 'stacks' and name == 'over-long':
                    pass
                args = {k: list(v) for k, v in base.items()}
                args[which] = f()
                R.evals += 1
                st, err = try_state(args['antes'], args['blinds'], 0, args['stacks'], n, autos=())
                cfg = {'which': which, 'vec': vec, 'form': name, 'n': n}
                if (st is None) != (ref is None):
                    R.viol.append(V('construction-form-acceptance',
                                    f'{which}={vec} as {name}: {"rejected " + str(err) if st is None else "accepted"}, explicit list '
                                    f'{"rejected " + str(rerr) if ref is None else "accepted"}', cfg, name))
                    continue
                if st is None:
                    if err[0] != 'ValueError':
                        R.viol.append(V('construction-exception-type', f'{which}={vec} as {name}: {err}', cfg, err[0]))
                    R.c['rejected_both'] += 1
                    continue
                R.c['accepted_both'] += 1
                got = {'antes': st.antes, 'blinds': st.blinds_or_straddles, 'stacks': st.starting_stacks}[which]
                R.classes.add(('stateform', which, tuple(got)))
                if tuple(got) != tuple(vec) or canon.snapshot(st) != refk:
                    R.viol.append(V('construction-form', f'{which}={vec} as {name}: state has {got}, differs from the explicit list',
                                    cfg, name))
    R.sample = {'n': n, 'which': 'blinds', 'vector': [1, 2, 0][:n], 'form': 'mapping-'}


def run_typed_scalars(R):
    """a layout given as one number of any chip type builds the same state as the explicit list"""
    pk = env.pokerkit
    A = tuple(env.S.Automation)
    for conv in (lambda v: v, lambda v: v * 0.5, lambda v: Fraction(v, 2), lambda v: Decimal(v) * Decimal('0.50')):
        for n in (2, 3):
            ante, stack = conv(1), conv(40)
            blinds = (conv(2), conv(4))
            for gname, mk in [('NoLimitTexasHoldem', lambda a, s: (A, True, a, blinds, conv(4), s, n)),
                              ('FixedLimitRazz', lambda a, s: (A, True, a, conv(1), conv(4), conv(8), s, n))]:
                G = getattr(pk, gname)
                if gname == 'FixedLimitRazz' and ante == 0:
                    continue
                ref = canon.snapshot(G.create_state(*mk([ante] * n, [stack] * n)))
                for an, a in (('scalar', ante), ('list', [ante] * n)):
                    for sn, st_ in (('scalar', stack), ('tuple', (stack,) * n), ('mapping', {i: stack for i in range(n)})):
                        R.evals += 1
                        cfg = {'game': gname, 'chip_type': type(ante).__name__, 'n': n, 'forms': (an, sn)}
                        try:
                            st = G.create_state(*mk(a, st_))
                        except Exception as exc:
                            R.viol.append(V('factory-form-acceptance', f'{cfg}: {type(exc).__name__}: {exc}', cfg,
                                            f'{an}/{sn}/{type(ante).__name__}'))
                            continue
                        if canon.snapshot(st) != ref:
                            R.viol.append(V('factory-form', f'{cfg}: state differs from the explicit lists', cfg, f'{an}/{sn}/{type(ante).__name__}'))
                        R.classes.add(('typed-scalar', gname, type(ante).__name__, n))


def run_gameforms(job, R):
    run_typed_scalars(R)
    pk = env.pokerkit
    A = tuple(env.S.Automation)
    cases = []
    for n in (2, 3, 4):
        for blinds in [(1, 2) + (0,) * (n - 2), (1, 2, 4, 0)[:n] if n > 2 else (1, 2), (0, 2) + (0,) * (n - 2)]:
            for antes in [(0,) * n, (1,) * n, (0, 2) + (0,) * (n - 2), (0,) * (n - 1) + (2,)]:
                cases.append((n, tuple(blinds), tuple(antes)))
    for n, blinds, antes in cases:
        stacks = tuple(20 + i for i in range(n))
        for gname, mkargs in [
            ('NoLimitTexasHoldem', lambda a, b, s: (A, True, a, b, 2, s, n)),
            ('PotLimitOmahaHoldem', lambda a, b, s: (A, True, a, b, 2, s, n)),
            ('FixedLimitTexasHoldem', lambda a, b, s: (A, True, a, b, 2, 4, s, n)),
            ('NoLimitDeuceToSevenLowballSingleDraw', lambda a, b, s: (A, True, a, b, 2, s, n)),
        ]:
            G = getattr(pk, gname)
            try:
                ref = G.create_state(*mkargs(list(antes), list(blinds), list(stacks)))
            except ValueError:
                continue
            refk = canon.snapshot(ref)
            for (an, af), (bn, bf), (sn, sf) in product(forms_of(antes), forms_of(blinds), forms_of(stacks)):
                if sum(x in ('list',) for x in (an, bn, sn)) < 2 and not (an == bn == sn):
                    continue        # vary one parameter at a time, plus the same form on all three
                R.evals += 1
                cfg = {'game': gname, 'antes': antes, 'blinds': blinds, 'stacks': stacks, 'forms': (an, bn, sn)}
                try:
                    st = G.create_state(*mkargs(af(), bf(), sf()))
                except Exception as exc:
                    R.viol.append(V('factory-form-acceptance', f'{gname} antes={antes} as {an}, blinds={blinds} as {bn}, stacks as {sn}: '
                                    f'{type(exc).__name__}: {exc}', cfg, f'{an}/{bn}/{sn}'))
                    continue
                R.classes.add(('gameform', gname, st.antes, st.blinds_or_straddles))
                if canon.snapshot(st) != refk:
                    R.viol.append(V('factory-form', f'{gname} antes={antes} as {an}, blinds={blinds} as {bn}, stacks as {sn}: '
                                    f'state differs from the explicit lists (antes {st.antes} blinds {st.blinds_or_straddles} '
                                    f'stacks {st.starting_stacks})', cfg, f'{an}/{bn}/{sn}'))
    # stud: bring-in games
    for n in (2, 3):
        antes = (1,) * n
        stacks = tuple(20 + i for i in range(n))
        G = pk.FixedLimitSevenCardStud
        ref = canon.snapshot(G.create_state(A, True, list(antes), 1, 2, 4, list(stacks), n))
        for (an, af), (sn, sf) in product(forms_of(antes), forms_of(stacks)):
            R.evals += 1
            st = G.create_state(A, True, af(), 1, 2, 4, sf(), n)
            if canon.snapshot(st) != ref:
                R.viol.append(V('factory-form', f'FixedLimitSevenCardStud antes as {an}, stacks as {sn} differs', {'n': n}, f'{an}/{sn}'))
    R.sample = {'game': 'NoLimitTexasHoldem', 'antes': {'-1': 2}, 'blinds': [1, 2], 'stacks': 'generator'}


def _layout_ref(form, n):
    """documented meaning of a chip layout for n seats, or None where two keys of a mapping name the same seat"""
    if isinstance(form, dict):
        out = [0] * n
        seen = set()
        for k, v in form.items():
            if not -n <= k < n:
                return None
            i = k % n
            if i in seen:
                return None
            seen.add(i)
            out[i] = v
        return out
    if isinstance(form, (list, tuple)):
        return (list(form) + [0] * n)[:n]
    return [form] * n


def run_gamereuse(job, R):
    """one game definition, several tables: game(stacks, n) for a sequence of player counts must give each table the state a
    fresh definition gives it (a scalar means every seat, a negative position counts from that table's button)"""
    import copy
    pk = env.pokerkit
    A = tuple(env.S.Automation)
    ANTES = [0, 1, {-1: 2}, {1: 2}, [0, 2], {0: 1, -1: 3}]
    BLINDS = [(1, 2), {0: 1, 1: 2}, {0: 1, 1: 2, -1: 4}, 2, {-1: 2}]
    seqs = [q for k in (2, 3) for q in product((2, 3, 4), repeat=k)]
    for gname, mk in [('NoLimitTexasHoldem', lambda a, b: (A, True, a, b, 2)), ('FixedLimitTexasHoldem', lambda a, b: (A, True, a, b, 2, 4)),
                      ('PotLimitOmahaHoldem', lambda a, b: (A, True, a, b, 2))]:
        G = getattr(pk, gname)
        for af, bf, seq in product(ANTES, BLINDS, seqs):
            game = G(*mk(copy.deepcopy(af), copy.deepcopy(bf)))
            for step, n in enumerate(seq):
                stacks = [20 + i for i in range(n)]
                ra, rb = _layout_ref(af, n), _layout_ref(bf, n)
                if ra is None or rb is None:
                    break
                try:
                    ref = G(*mk(ra, rb))(list(stacks), n)
                except ValueError:
                    break
                R.evals += 1
                cfg = {'game': gname, 'antes': repr(af), 'blinds': repr(bf), 'player_counts': list(seq[:step + 1])}
                try:
                    st = game(list(stacks), n)
                except Exception as exc:
                    R.viol.append(V('game-reuse-acceptance', f'{gname}(antes={af!r}, blinds={bf!r}) used for tables of {seq[:step + 1]}: '
                                    f'{type(exc).__name__}: {exc}', cfg, type(af).__name__ + '/' + type(bf).__name__))
                    break
                if step:
                    R.classes.add(('gamereuse', gname, repr(af), repr(bf), seq[step - 1] < n))
                if canon.snapshot(st) != canon.snapshot(ref):
                    R.viol.append(V('game-reuse', f'{gname}(antes={af!r}, blinds={bf!r}) used for tables of {seq[:step + 1]} players in turn: the '
                                    f'last table has antes {st.antes} blinds {st.blinds_or_straddles}, a fresh definition gives '
                                    f'{ref.antes} / {ref.blinds_or_straddles}', cfg, type(af).__name__ + '/' + type(bf).__name__))
                    break
    R.sample = {'game': 'NoLimitTexasHoldem', 'antes': {'-1': 2}, 'blinds': [1, 2], 'player_counts': [2, 3]}


# ------------------------------------------------------------------------------------------ (b) cards
RANKS = '23456789TJQKA'
SUITS = 'cdhs'


def run_cards1(job, R):
    from pokerkit.utilities import Card, Rank, Suit, Deck
    deck = list(Deck.STANDARD)
    texts = set()
    for c in deck + [Card.UNKNOWN]:
        R.evals += 1
        t = repr(c)
        texts.add(t)
        back = list(Card.parse(t))
        if len(back) != 1 or back[0] != c or hash(back[0]) != hash(c):
            R.viol.append(V('card-repr-parse', f'{t} parses back to {back}', {'card': t}))
        if Card.clean(c) != (c,) or Card.clean(t) != (c,) or Card.clean([c]) != (c,) or Card.clean(iter((c,))) != (c,):
            R.viol.append(V('card-clean', f'{t}: clean() forms differ', {'card': t}))
        R.classes.add(('card', t))
    if len(texts) != 53:
        R.viol.append(V('card-repr-distinct', f'{len(texts)} distinct texts for 53 cards', {}))
    # every rank x suit text incl. unknowns, and '10' for 'T'
    for r in RANKS + '?':
        for s in SUITS + '?':
            R.evals += 1
            c = list(Card.parse(r + s))
            if len(c) != 1 or c[0].rank != Rank(r) or c[0].suit != Suit(s) or repr(c[0]) != r + s:
                R.viol.append(V('card-parse', f'{r + s} parsed to {c}', {'text': r + s}))
            if bool(c[0]) != (r != '?' and s != '?') or c[0].unknown_status != (r == '?' or s == '?'):
                R.viol.append(V('card-unknown-status', f'{r + s}: bool {bool(c[0])} unknown_status {c[0].unknown_status}', {'text': r + s}))
            if r == 'T':
                c10 = list(Card.parse('10' + s))
                if c10 != c:
                    R.viol.append(V('card-ten', f'10{s} parsed to {c10}, T{s} to {c}', {'text': '10' + s}))
    # invalid texts are refused with ValueError
    for bad in ['A', 'Ax', '1s', 'Zs', 'AsK', 'As Kx', 'sA', 'as', 'AS']:
        R.evals += 1
        try:
            got = list(Card.parse(bad))
            R.viol.append(V('card-invalid-accepted', f'{bad!r} parsed to {got}', {'text': bad}))
        except ValueError:
            R.c['invalid_card_texts_refused'] += 1
        except Exception as exc:
            R.viol.append(V('card-invalid-exception', f'{bad!r}: {type(exc).__name__}', {'text': bad}))
    R.sample = {'card': 'Ts', 'forms': ['Ts', '10s', 'Card', '[Card]', 'iter((Card,))']}


def seq_forms(texts, objs):
    """representations of a card sequence"""
    T = [t.replace('T', '10') for t in texts]
    return [
        ('concat', ''.join(texts)), ('spaces', ' '.join(texts)), ('commas', ','.join(texts)), ('comma-space', ', '.join(texts)),
        ('tens', ''.join(T)), ('tens-spaces', ' '.join(T)), ('mixed', texts[0] + ' ' + ''.join(texts[1:])),
        ('list', list(objs)), ('tuple', tuple(objs)), ('generator', (o for o in objs)), ('double-space', '  '.join(texts)),
    ]


def run_cards2(job, R):
    from pokerkit.utilities import Card
    allc = [r + s for r in RANKS for s in SUITS] + ['??', 'A?', '?s']
    objs = {t: next(Card.parse(t)) for t in allc}
    k, m = job['part']
    idx = 0
    for a in allc:
        for b in allc:
            idx += 1
            if idx % m != k:
                continue
            exp = (objs[a], objs[b])
            for name, f in seq_forms([a, b], exp):
                R.evals += 1
                try:
                    got = Card.clean(f)
                except Exception as exc:
                    R.viol.append(V('cards-clean-raised', f'{a}{b} as {name}: {type(exc).__name__}: {exc}', {'cards': [a, b], 'form': name}, name))
                    continue
                if tuple(got) != exp:
                    R.viol.append(V('cards-clean', f'{a}{b} as {name} ({f!r}) cleaned to {got}', {'cards': [a, b], 'form': name}, name))
            R.classes.add(('pair', a, b))
    sub = ['As', 'Ts', 'Td', '2c', '??', 'Kh']
    if k == 0:
        for tri in permutations(sub, 3):
            exp = tuple(objs[t] for t in tri)
            for name, f in seq_forms(list(tri), exp):
                R.evals += 1
                got = Card.clean(f)
                if tuple(got) != exp:
                    R.viol.append(V('cards-clean', f'{tri} as {name} cleaned to {got}', {'cards': list(tri), 'form': name}, name))
        if Card.clean('') != () or Card.clean(()) != () or Card.clean('  ') != ():
            R.viol.append(V('cards-clean-empty', 'empty forms differ', {}))
        for bad in (None, 5):
            try:
                Card.clean(bad)
                R.viol.append(V('cards-clean-accepts-garbage', repr(bad), {}))
            except ValueError:
                pass
    R.sample = {'cards': ['Ts', 'Ah'], 'forms': ['TsAh', 'Ts Ah', 'Ts,Ah', '10sAh', '[Card, Card]', 'generator']}


def run_handforms(job, R):
    """hole and board cards given to the hand evaluators (from_game / from_game_or_none) as text, spaced text, tuple, list,
    generator, iterator or map of Card objects denote the same cards: same hand or same refusal"""
    from itertools import combinations
    from pokerkit.utilities import Card
    import pokerkit.hands as PH
    from .c05 import DECKS, TYPE_DECKS
    shapes = {'StandardHighHand': [(2, 5), (2, 3), (7, 0)], 'StandardLowHand': [(5, 0), (2, 4)], 'GreekHoldemHand': [(2, 5), (2, 4), (2, 3)],
              'OmahaHoldemHand': [(4, 5), (4, 3), (5, 4)], 'ShortDeckHoldemHand': [(2, 5), (2, 3)], 'EightOrBetterLowHand': [(7, 0), (2, 5)],
              'OmahaEightOrBetterLowHand': [(4, 5), (4, 4)], 'RegularLowHand': [(7, 0), (5, 0)], 'BadugiHand': [(4, 0), (5, 0)],
              'StandardBadugiHand': [(4, 0)]}
    forms = [('text', lambda cs: ''.join(cs)), ('spaced', lambda cs: ' '.join(cs)), ('tuple', lambda cs: tuple(Card.parse(''.join(cs)))),
             ('list', lambda cs: list(Card.parse(''.join(cs)))), ('generator', lambda cs: Card.parse(''.join(cs))),
             ('iterator', lambda cs: iter(tuple(Card.parse(''.join(cs))))), ('map', lambda cs: map(lambda c: c, tuple(Card.parse(''.join(cs)))))]

    def ev(T, fn, h, b):
        try:
            x = getattr(T, fn)(h, b)
        except ValueError:
            return 'ValueError'
        return None if x is None else (tuple(map(repr, x.cards)), x.entry.index)

    for t, shp in shapes.items():
        T = getattr(PH, t)
        d = DECKS[TYPE_DECKS[t][0]].split()[:10]
        for h, b in shp:
            holes = list(combinations(d, h))
            holes = holes[::max(1, len(holes) // 12)]
            for hole in holes:
                rest = [c for c in d if c not in hole]
                boards = list(combinations(rest, b))
                boards = boards[::max(1, len(boards) // 6)] + ([tuple(reversed(boards[-1]))] if b else [])
                for board in boards:
                    for fn in ('from_game', 'from_game_or_none'):
                        ref = ev(T, fn, ''.join(hole), ''.join(board))
                        R.classes.add(('handform', t, ref is None or ref == 'ValueError'))
                        for (hn, hf), (bn, bf) in product(forms, forms):
                            if hn != 'text' and bn != 'text' and hn != bn:
                                continue
                            R.evals += 1
                            try:
                                got = ev(T, fn, hf(hole), bf(board))
                            except Exception as exc:
                                got = f'{type(exc).__name__}: {exc}'
                            if got != ref:
                                R.viol.append(V('hand-evaluation-form', f'{t}.{fn}(hole {"".join(hole)} as {hn}, board {"".join(board)} as {bn}) gives {got}, '
                                                f'as text {ref}', {'type': t, 'hole': hole, 'board': board, 'forms': (hn, bn)}, f'{t}/{hn}/{bn}'))
    R.sample = {'type': 'GreekHoldemHand', 'hole': 'generator of Card', 'board': 'text'}


def run_cardops(job, R):
    """card arguments of State operations in every form lead to the same state"""
    from pokerkit.utilities import Card
    pk = env.pokerkit
    env.set_warnings('ignore')

    def fresh():
        return pk.NoLimitTexasHoldem.create_state(
            (env.S.Automation.ANTE_POSTING, env.S.Automation.BET_COLLECTION, env.S.Automation.BLIND_OR_STRADDLE_POSTING),
            True, 0, (1, 2), 2, (20, 20), 2)
    holes = [('Ts', 'Ah'), ('2c', 'Td'), ('??', '??'), ('Kd', '??')]
    boards = [('Tc', '9d', '2h'), ('As', 'Th', '3c')]
    for h0 in holes:
        for h1 in holes:
            if set(h0) & set(h1) - {'??'}:
                continue
            for bd in boards:
                if (set(bd) & (set(h0) | set(h1))):
                    continue
                ref = None
                o = lambda ts: tuple(next(Card.parse(t)) for t in ts)
                for (n0, f0), (n1, f1), (nb, fb) in zip(seq_forms(list(h0), o(h0)), seq_forms(list(h1), o(h1)),
                                                       seq_forms(list(bd), o(bd))):
                    R.evals += 1
                    st = fresh()
                    try:
                        st.deal_hole(f0)
                        st.deal_hole(f1)
                        st.check_or_call()
                        st.check_or_call()
                        st.burn_card('5s' if n0 != 'list' else next(Card.parse('5s')))
                        st.deal_board(fb)
                    except Exception as exc:
                        R.viol.append(V('card-argument-form-raised', f'holes {h0} {h1} board {bd} as {n0}: {type(exc).__name__}: {exc}',
                                        {'holes': [h0, h1], 'board': bd, 'form': n0}, n0))
                        continue
                    snap = canon.snapshot(st)
                    ops = [repr(op) for op in st.operations]
                    if ref is None:
                        ref = (snap, ops, n0)
                    elif snap != ref[0] or ops != ref[1]:
                        R.viol.append(V('card-argument-form', f'holes {h0} {h1} board {bd}: form {n0} leads to a different state than {ref[2]}',
                                        {'holes': [h0, h1], 'board': bd, 'form': n0}, n0))
                R.classes.add(('cardops', h0, h1, bd))
    # one card per call, incl. unknown and half-unknown cards, as text / bare Card object / list / tuple / iterator
    def single_forms(t):
        c = next(Card.parse(t))
        return [('text', t), ('card-object', c), ('list', [c]), ('tuple', (c,)), ('iterator', iter([c])), ('text-padded', f' {t} ')]
    for t in ['Ts', '??', 'A?', '?s', '10h']:
        for where in ('hole', 'burn', 'board'):
            ref = None
            for name, f in single_forms(t):
                R.evals += 1
                st = fresh()
                try:
                    if where == 'hole':
                        st.deal_hole(f)
                    else:
                        st.deal_hole('2c3c')
                        st.deal_hole('2d3d')
                        st.check_or_call()
                        st.check_or_call()
                        if where == 'burn':
                            st.burn_card(f)
                        else:
                            st.burn_card('??')
                            st.deal_board('4c4d4h')
                            st.check_or_call()
                            st.check_or_call()
                            st.burn_card('??')
                            st.deal_board(f)
                except Exception as exc:
                    R.viol.append(V('card-argument-form-raised', f'{where} card {t} as {name}: {type(exc).__name__}: {exc}',
                                    {'card': t, 'where': where, 'form': name}, name))
                    continue
                snap = canon.snapshot(st)
                ops = [repr(op) for op in st.operations]
                if ref is None:
                    ref = (snap, ops, name)
                elif snap != ref[0] or ops != ref[1]:
                    diff = [(a, b) for a, b in zip(ops, ref[1]) if a != b][:1]
                    R.viol.append(V('card-argument-form', f'{where} card {t}: form {name} leads to a different state than {ref[2]} ({diff}; '
                                    f'deck {len(st.deck_cards)} cards)', {'card': t, 'where': where, 'form': name}, name))
            R.classes.add(('single-card', t, where))
    # discards and shown cards
    def draw():
        return pk.NoLimitDeuceToSevenLowballSingleDraw.create_state(
            (env.S.Automation.ANTE_POSTING, env.S.Automation.BET_COLLECTION, env.S.Automation.BLIND_OR_STRADDLE_POSTING,
             env.S.Automation.CARD_BURNING), True, 0, (1, 2), 2, (20, 20), 2)
    hand0 = ('Ts', '9s', '8d', '2c', 'Th')
    hand1 = ('Ks', 'Kd', 'Kc', '3c', '3h')
    for disc in [(), ('Ts',), ('Ts', 'Th'), ('2c', 'Ts', '9s')]:
        ref = None
        o = lambda ts: tuple(next(Card.parse(t)) for t in ts)
        fl = seq_forms(list(disc), o(disc)) if disc else [('empty-str', ''), ('empty-tuple', ()), ('empty-list', [])]
        for name, f in fl:
            if disc and name == 'mixed' and len(disc) == 1:
                continue
            R.evals += 1
            st = draw()
            st.deal_hole(''.join(hand0))
            st.deal_hole(''.join(hand1))
            st.check_or_call()
            st.check_or_call()
            try:
                st.stand_pat_or_discard(f)
            except Exception as exc:
                R.viol.append(V('card-argument-form-raised', f'discard {disc} as {name}: {type(exc).__name__}: {exc}', {'discard': disc, 'form': name}, name))
                continue
            snap = canon.snapshot(st)
            if ref is None:
                ref = (snap, name)
            elif snap != ref[0]:
                R.viol.append(V('card-argument-form', f'discard {disc}: form {name} differs from {ref[1]}', {'discard': disc, 'form': name}, name))
    R.sample = {'operation': 'deal_hole', 'forms': ['TsAh', '10s Ah', '[Card, Card]']}


# ------------------------------------------------------------------------------------------ (c) layouts
def run_layout(job, R):
    n = job['n']
    antes = job['antes']
    for blinds in product((0, 1, 2, -2), repeat=n):
        for stacks in product((0, 1, 5), repeat=n):
            for bring_in in (0, 1, 2):
                for boards in (0, 1):
                    R.evals += 1
                    exp = layout_valid(n, antes, blinds, bring_in, stacks, boards)
                    st, err = try_state(list(antes), list(blinds), bring_in, list(stacks), n, boards)
                    cfg = {'n': n, 'antes': antes, 'blinds': blinds, 'bring_in': bring_in, 'stacks': stacks, 'boards': boards}
                    if st is not None and not exp:
                        why = ('blinds/straddles together with a bring-in' if any(blinds) and bring_in else 'invalid layout')
                        R.viol.append(V('invalid-layout-accepted', f'{cfg}: constructed, but the layout is invalid ({why})', cfg,
                                        'blinds-with-bring-in' if any(blinds) and bring_in and all(b >= 0 for b in blinds) else 'other'))
                    elif st is None and exp:
                        R.viol.append(V('valid-layout-rejected', f'{cfg}: {err}', cfg, err[0]))
                    elif st is None and err[0] != 'ValueError':
                        R.viol.append(V('layout-exception-type', f'{cfg}: {err}', cfg, err[0]))
                    R.c['layouts_valid' if exp else 'layouts_invalid'] += 1
                    R.classes.add(('layout', exp, None if err is None else err[1][:30]))
    R.sample = {'n': n, 'antes': list(antes), 'blinds': [1, 2, 0][:n], 'bring_in': 1, 'stacks': [5] * n, 'boards': 1, 'expected': 'rejected'}


def run_layout_scalar(job, R):
    for n in (0, 1, 2, 3):
        for antes in (-1, 0, 1):
            for blinds in (0, 1, -2):
                for bring_in in (-1, 0, 1, 2):
                    for stacks in (0, 1, 5, -3):
                        for boards in (-1, 0, 1, 2):
                            R.evals += 1
                            exp = layout_valid(n, (antes,) * n, (blinds,) * n, bring_in, (stacks,) * n, boards)
                            st, err = try_state(antes, blinds, bring_in, stacks, n, boards)
                            cfg = {'n': n, 'antes': antes, 'blinds': blinds, 'bring_in': bring_in, 'stacks': stacks, 'boards': boards}
                            if st is not None and not exp:
                                R.viol.append(V('invalid-layout-accepted', f'{cfg}: constructed, but the layout is invalid', cfg,
                                                'blinds-with-bring-in' if blinds > 0 and bring_in > 0 else 'other'))
                            elif st is None and exp:
                                R.viol.append(V('valid-layout-rejected', f'{cfg}: {err}', cfg, err[0]))
                            elif st is None and err[0] != 'ValueError':
                                R.viol.append(V('layout-exception-type', f'{cfg}: {err}', cfg, err[0]))
                            R.c['layouts_valid' if exp else 'layouts_invalid'] += 1
    R.sample = {'n': 1, 'antes': 1, 'blinds': 0, 'bring_in': 0, 'stacks': 5, 'expected': 'rejected (one player)'}


# ------------------------------------------------------------------------------------------ (d) arithmetic
def run_arith(job, R):
    from pokerkit.utilities import divmod as pdivmod, rake
    from math import inf
    kind = job['chips']
    conv = {'int': lambda x: x, 'fraction': lambda x: Fraction(x, 3), 'float': lambda x: x * 0.25 + (0.1 if x % 7 == 3 else 0),
            'decimal': lambda x: Decimal(x) * Decimal('0.25') + (Decimal('0.01') if x % 7 == 3 else 0)}[kind]
    exact = kind in ('int', 'fraction')

    def close(a, b):
        return a == b if exact else abs(a - b) <= Decimal('1e-9') if kind == 'decimal' else abs(a - b) <= 1e-9

    for amt in range(0, 61):
        a = conv(amt)
        for d in range(1, 7):
            R.evals += 1
            try:
                q, r = pdivmod(a, d)
            except Exception as exc:
                R.viol.append(V('divmod-raised', f'divmod({a!r}, {d}): {type(exc).__name__}: {exc}', {'amount': repr(a), 'divisor': d}, kind))
                continue
            R.classes.add(('divmod', kind, amt % d == 0))
            if not close(q * d + r, a):
                R.viol.append(V('divmod-sum', f'divmod({a!r}, {d}) = ({q!r}, {r!r}): parts add up to {q * d + r!r}', {'amount': repr(a), 'divisor': d}, kind))
            if kind != 'int' and r != a - q * d:
                # "parts that add up to the amount": whatever the division loses to rounding must come back as the remainder
                R.viol.append(V('divmod-residue', f'divmod({a!r}, {d}) = ({q!r}, {r!r}): the remainder is not what the shares leave over '
                                f'({a - q * d!r})', {'amount': repr(a), 'divisor': d}, kind))
            if kind != 'int' and not (close(r, conv(0)) and close(q * d, a)):
                R.viol.append(V('divmod-equal-shares', f'divmod({a!r}, {d}) = ({q!r}, {r!r}): chips that are not whole numbers are shared exactly, '
                                f'nothing should be left over', {'amount': repr(a), 'divisor': d}, kind))
            if exact and (r < 0 or (kind == 'int' and not (0 <= r < d))):
                R.viol.append(V('divmod-remainder', f'divmod({a!r}, {d}) remainder {r!r}', {'amount': repr(a), 'divisor': d}, kind))
        if kind == 'int':
            pcts = [0, 0.05, 0.5, 1, Fraction(1, 10), Fraction(1, 3)]
            caps = [inf, 0, 1, 3]
        elif kind == 'fraction':
            pcts = [0, Fraction(1, 20), Fraction(1, 2), 1]
            caps = [inf, 0, Fraction(1, 3), 3]
        elif kind == 'float':
            pcts = [0, 0.05, 0.5, 1]
            caps = [inf, 0, 0.25, 3]
        else:
            pcts = [0, Decimal('0.05'), Decimal('0.5'), 1]
            caps = [Decimal('Infinity'), 0, Decimal('0.25'), 3]
        for p in pcts:
            for cap in caps:
                R.evals += 1
                try:
                    rk, un = rake(a, None, percentage=p, cap=cap)
                except Exception as exc:
                    R.viol.append(V('rake-raised', f'rake({a!r}, percentage={p!r}, cap={cap!r}): {type(exc).__name__}: {exc}',
                                    {'amount': repr(a), 'pct': repr(p), 'cap': repr(cap)}, kind))
                    continue
                R.classes.add(('rake', kind, repr(p), repr(cap), rk == 0))
                want = a * p
                if kind == 'int':
                    want = round(want)
                want = min(want, cap)
                if not close(rk, want) if kind != 'int' else rk != want:
                    R.viol.append(V('rake-value', f'rake({a!r}, percentage={p!r}, cap={cap!r}) takes {rk!r}, documented min(amount x percentage'
                                    f'{" rounded to whole chips" if kind == "int" else ""}, cap) = {want!r}',
                                    {'amount': repr(a), 'pct': repr(p), 'cap': repr(cap)}, kind))
                if not close(rk + un, a):
                    R.viol.append(V('rake-sum', f'rake({a!r}, percentage={p!r}, cap={cap!r}) = ({rk!r}, {un!r}) adds up to {rk + un!r}',
                                    {'amount': repr(a), 'pct': repr(p), 'cap': repr(cap)}, kind))
                if rk < 0 or un < -1e-9 or (cap != caps[0] and rk > cap):
                    R.viol.append(V('rake-range', f'rake({a!r}, percentage={p!r}, cap={cap!r}) = ({rk!r}, {un!r})',
                                    {'amount': repr(a), 'pct': repr(p), 'cap': repr(cap)}, kind))
    for amt in range(0, 61):
        R.evals += 1
        if tuple(rake(conv(amt))) != (0, conv(amt)):
            R.viol.append(V('rake-default', f'rake({conv(amt)!r}) with default parameters = {rake(conv(amt))!r}, documented: nothing is raked',
                            {'amount': repr(conv(amt))}, kind))
    for p in (-0.1, 1.5):
        R.evals += 1
        try:
            rake(conv(10) if kind != 'decimal' else 10, None, percentage=p)
            R.viol.append(V('rake-percentage-accepted', f'percentage {p} accepted', {'pct': p}))
        except ValueError:
            pass
    R.sample = {'chips': kind, 'divmod': [repr(conv(10)), 3], 'rake': [repr(conv(10)), '5%', 'cap 1']}


class R_:
    def __init__(self):
        self.viol = []
        self.c = Counter()
        self.evals = 0
        self.classes = set()
        self.sample = None


RUN = {'values': run_values, 'stateforms': run_stateforms, 'gameforms': run_gameforms, 'cards1': run_cards1,
       'cards2': run_cards2, 'cardops': run_cardops, 'layout': run_layout, 'layout-scalar': run_layout_scalar, 'arith': run_arith, 'gamereuse': run_gamereuse, 'handforms': run_handforms}


def run_job(job):
    env.set_warnings('ignore')
    R = R_()
    RUN[job['kind']](job, R)
    return {'family': job['family'], 'stats': {}, 'violations': R.viol[:20], 'counters': dict(R.c),
            'evaluations': R.evals, 'validated': R.evals, 'samples': [R.sample] if R.sample else [],
            'merge': R.classes}


def finalize(merges, tier):
    allc = set()
    for m in merges:
        allc |= m
    return [], Counter({'distinct_results': len(allc)}), {'distinct': len(allc)}


def sanity(agg, counters, fam, tier):
    return [f'{k} == 0' for k in ('layouts_valid', 'layouts_invalid', 'accepted_both', 'rejected_both', 'invalid_card_texts_refused')
            if not counters.get(k)]


def bounds(tier):
    return ('values {0..3}^n n<=4 x 10-13 forms; State forms n=2..4; 4 factories + stud x forms; 53 cards, 20 rank/suit texts incl. '
            'unknowns, all 55^2 ordered pairs x 11 forms, triples over 6 cards; layouts n<=3 full grid (antes {-1,0,1}^n x blinds '
            '{0,1,2,-2}^n x stacks {0,1,5}^n x bring-in {0,1,2} x boards {0,1}) + scalar grid n=0..3; divmod 0..60 x 1..6, rake x 4-6 '
            'percentages x 4 caps, 4 chip types')


def replay(doc):
    env.set_warnings('ignore')
    cfg = doc['cfg']
    print('oracle:', doc.get('oracle'), '|', doc.get('detail'))
    if doc.get('oracle') in ('invalid-layout-accepted', 'valid-layout-rejected', 'layout-exception-type'):
        n = cfg['n']
        st, err = try_state(cfg['antes'], cfg['blinds'], cfg['bring_in'], cfg['stacks'], n, cfg['boards'])
        a = cfg['antes'] if isinstance(cfg['antes'], (list, tuple)) else (cfg['antes'],) * n
        b = cfg['blinds'] if isinstance(cfg['blinds'], (list, tuple)) else (cfg['blinds'],) * n
        s = cfg['stacks'] if isinstance(cfg['stacks'], (list, tuple)) else (cfg['stacks'],) * n
        exp = layout_valid(n, a, b, cfg['bring_in'], s, cfg['boards'])
        print('constructed' if st is not None else f'rejected {err}', '| predicate says', 'valid' if exp else 'invalid')
        return 1 if (st is not None) != exp else 0
    print('(re-run ./check C19 to re-evaluate this family)')
    return 1
