"""C03 - betting follows the rules (lock-step product with an independent reference)."""
from itertools import product, permutations

from .. import sx, configs as C
from ..explore import ErrorsMonitor
from ..refs.betting import BettingMonitor

PROPERTY = 'C03'
LEVEL = 'model_checking'
RULE = ('every reachable betting state of each configuration (BFS over the real State, product with the reference '
        'Round automaton); at every decision every raise-to amount 0..max+2 and None, fold, check/call, bring-in are '
        'compared with the reference verdict must-accept / must-refuse / undetermined')
ASSUMPTIONS = [
    'two undetermined bands are not judged (counted in evidence): amounts in [effective-stack cap, nominal minimum) '
    'and states where per-player and cumulative formulations of the short-all-in rule disagree',
    'stud openers are taken from the engine here (C13 decides them); button-game openers are computed from the layout',
]


def st2(minbet=2, cap=None):
    return [(False, (False,), 0, False, 'POSITION', minbet, cap), (False, (), 1, False, 'POSITION', minbet, cap)]


def st1(minbet=2, cap=None):
    return [(False, (False,), 0, False, 'POSITION', minbet, cap)]


def _j(family, cfg, **kw):
    j = {'family': family, 'cfg': cfg}
    j.update(kw)
    return j


def jobs(tier, seed):
    th = tier == 'thorough'
    out = []
    kw = dict(deck='KUHN9', hand_types=('KuhnAny',), antes=0)
    grid3 = list(product(range(2, 7), repeat=3)) if not th else list(product(range(1, 9), repeat=3))
    for stacks in grid3:
        for structure in ('NL', 'PL'):
            out.append(_j(f'{structure}-1street-grid', C.custom(stacks, st1(), structure=structure, blinds=(1, 2), **kw)))
    grid2s = [v for v in grid3 if v[0] <= v[1] <= v[2] or th] if not th else list(product(range(2, 8), repeat=3))
    for stacks in grid2s:
        out.append(_j('NL-2street-grid', C.custom(stacks, st2(), structure='NL', blinds=(1, 2), **kw),
                      dev_bound=None if max(stacks) <= 5 else 4))
    # 4 players incl. exact-equality boundary vectors of the short all-in rule
    g4 = [(6, 12, 12, 5), (3, 7, 9, 12), (5, 5, 9, 9), (4, 8, 6, 12), (7, 3, 11, 5), (9, 4, 4, 9)]
    if th:
        g4 += list(product((2, 4, 6, 9), repeat=4))
    for stacks in g4:
        out.append(_j('NL-4players', C.custom(stacks, st1(), structure='NL', blinds=(1, 2), **kw)))
        out.append(_j('PL-4players', C.custom(stacks, st1(), structure='PL', blinds=(1, 2), **kw)))
    # straddles, antes, cash mode (fold warnings), both warning modes
    for stacks in [(5, 9, 12), (3, 6, 6), (6, 4, 9), (9, 9, 2)]:
        for blinds in [(1, 2, 4), (2, 2), {0: 1, 1: 2, -1: 4}, (1, 2, -2)]:
            out.append(_j('NL-straddle-posts', C.custom(stacks, st2(), structure='NL', blinds=blinds, **kw), dev_bound=4))
        for mode, warn in [('cash', 'ignore'), ('cash', 'error'), ('tournament', 'error')]:
            out.append(_j(f'NL-{mode}-warn-{warn}', C.custom(stacks, st2(), structure='NL', blinds=(1, 2), mode=mode, **kw),
                          warn=warn, opts={'fold_unfaced': True}, dev_bound=4))
        out.append(_j('NL-antes', C.custom(stacks, st2(), structure='NL', blinds=(1, 2), deck='KUHN9',
                                           hand_types=('KuhnAny',), antes=1), dev_bound=4))
    for stacks in [(3, 5), (2, 7), (6, 6), (1, 4), (4, 1), (5, 2)]:
        for structure in ('NL', 'PL', 'FL'):
            out.append(_j('heads-up', C.custom(stacks, st2(), structure=structure, blinds=(1, 2), **kw)))
    # pot-limit with a rake: the pot a pot-sized raise is measured against is everything the players put in, raked part included
    for stacks in [(20, 20), (15, 25, 20), (30, 12, 30)]:
        for rake in [('pct', 1, 10, None, False), ('pct', 1, 4, 2, False), ('pct', 1, 10, None, True)]:
            out.append(_j('PL-with-rake', C.custom(stacks, st2(), structure='PL', blinds=(1, 2), rake=rake, **kw),
                          opts={'raises': 'minmax'}, dev_bound=4))
    # caps
    for cap in (1, 2, 4):
        for stacks in [(9, 9, 9), (5, 12, 7), (30, 30, 30)]:
            for structure in ('FL', 'NL'):
                out.append(_j(f'cap-{cap}', C.custom(stacks, st2(2, cap), structure=structure, blinds=(1, 2), **kw),
                              opts={'raises': 'all' if max(stacks) < 20 else 'minmax'}, dev_bound=6))
    # the real variants: FL hold'em (small/big bet, cap 4), NL, PL Omaha, stud with bring-in, draw
    for stacks in [(5, 9, 30), (4, 6, 8), (12, 3, 7)] + ([(6, 12, 12, 5)] if th else []):
        out.append(_j('FT', C.fl(stacks), dev_bound=5 if not th else 7))
        out.append(_j('NT', C.nt(stacks), opts={'raises': 'all'}, dev_bound=3 if not th else 4))
        out.append(_j('PO', C.nt(stacks, game='PotLimitOmahaHoldem'), dev_bound=3 if not th else 4))
        for game in ('FixedLimitSevenCardStud', 'FixedLimitRazz'):
            out.append(_j(game, C.stud(stacks, game=game), dev_bound=4 if not th else 5))
        out.append(_j('stud-short-bring-in', C.stud(stacks, antes=2, bring_in=1, game='FixedLimitSevenCardStud'),
                      dev_bound=3))
        out.append(_j('badugi', C.fl(stacks, game='FixedLimitBadugi'), dev_bound=3 if not th else 4))
    # bring-in games in cash-game mode, where a fold that faces no bet is only warned about: while the bring-in is pending
    # neither a fold nor a check is an action; both warning filters
    for stacks in [(5, 9, 30), (4, 6)]:
        for game in ('FixedLimitSevenCardStud', 'FixedLimitRazz', 'FixedLimitSevenCardStudHighLowSplitEightOrBetter'):
            for warn in ('ignore', 'error'):
                out.append(_j('stud-cash-mode', C.stud(stacks, game=game, mode='cash'), warn=warn, opts={'fold_unfaced': True},
                              dev_bound=3 if not th else 4))
    for stacks in [(2, 9), (9, 2), (2, 2), (2, 9, 9), (9, 2, 9), (9, 9, 2), (2, 2, 2), (3, 2, 9), (5, 3, 2)]:
        for game in ('FixedLimitSevenCardStud', 'FixedLimitRazz'):
            out.append(_j('stud-partial-bring-in', C.stud(stacks, game=game, antes=1, bring_in=2, small=4, big=8), dev_bound=3))
    # stud streets open on the cards showing: every assignment of a strong / middling / weak board to the three seats x
    # every seat being the one who is all-in from third street on (the designee may be unable to act, the turn then
    # passes clockwise from HIM, not to the best board among those with chips)
    boards = [('Ah', 'Ad'), ('Kh', 'Kd'), ('2h', '3d')]
    downs = ['5c', '6c', '7c', '8c', '9c', 'Tc']
    for perm in permutations(range(3)):
        plan = []
        for i in range(3):
            plan += [downs[2 * i], downs[2 * i + 1], boards[perm[i]][0]]
        plan += ['4s'] + [boards[perm[i]][1] for i in range(3)]
        for short in range(3):
            stacks = tuple(2 if i == short else 9 for i in range(3))
            for game in ('FixedLimitSevenCardStud', 'FixedLimitRazz'):
                out.append(_j('stud-boards-with-all-in', C.stud(stacks, game=game, plan=plan), dev_bound=2 if not th else 4))
    for stacks in []:
        pass
        out.append(_j('ND27', C.nt(stacks, game='NoLimitDeuceToSevenLowballSingleDraw'), dev_bound=3))
    for j in out:
        j.setdefault('state_cap', 500000 if th else 40000)
        j.setdefault('time_cap', 1800 if th else 400)
    return out


def run_job(job):
    r, ctx = sx.run(job, [BettingMonitor('C03'), ErrorsMonitor('C03', ('fold', 'check_or_call', 'post_bring_in', 'complete_bet_or_raise_to'))], validated='decisions_compared')
    return r


def sanity(agg, counters, fam, tier):
    msgs = []
    for k in ('states_after_short_all_in', 'cap_reached_states', 'all_in_for_less_states', 'raise_refused_states',
              'undetermined_amounts', 'card_openers_from_reference', 'card_designee_all_in_with_betting_left'):
        if not counters.get(k):
            msgs.append(f'{k} == 0')
    return msgs


def bounds(tier):
    return ('3 players all stack vectors {2..6}^3 (thorough {1..8}^3) NL/PL one street, two streets on a sub-grid; '
            '4 players curated boundary vectors (thorough {2,4,6,9}^4); straddles/posts/antes/cash/warnings-as-errors; '
            'caps 1,2,4; real variants deviation-bounded')
