"""C02 - every pot goes to the best eligible live hand(s), in the right amounts."""
from itertools import permutations, product

from .. import sx, configs as C
from ..refs import pots as P

PROPERTY = 'C02'
LEVEL = 'model_checking'
RULE = ('tiny-deck games: every deal (all ordered assignments of the 6-card two-suit deck to players and boards) x every '
        'betting/showdown history of the real State; at every terminal state the ChipsPushing totals and payoffs are '
        'compared with an independent layered pot award computed from the operation log')
ASSUMPTIONS = ['pots nobody is eligible for while >= 2 players are live are undetermined by the statement (counted)',
               'a rake or divmod callable supplied by the configuration is used by the reference as given; the default split is the '
               'reference\'s own (whole chips: builtin divmod; other chip types: exact division)',
               'JQLow / KuhnAny hand types are harness-defined through the public Hand/Lookup extension point']


class PotsMonitor:
    name = 'pots'

    def __init__(self, prop='C02', strength=P.tiny_strength):
        self.prop = prop
        self.strength = strength

    # what the log says about the chips (who put in what, who is live, who was pushed what) is part of the explored state:
    # the verdict at the end is computed from it, so two histories whose engine fields coincide but whose logs tell
    # different stories are judged separately instead of the first one standing in for both
    @staticmethod
    def _digest(st):
        a = P.log_accounting(st)
        return (tuple(a['in_pot']), tuple(a['live']), tuple(a['recv']), tuple(a['front']), a['pooled'], tuple(a['pulled']),
                tuple(tuple(sorted(P.shown_cards(st.operations, i))) for i in range(st.player_count)))

    def init(self, st, ctx):
        return self._digest(st)

    def key(self, ms):
        return ms

    def on_edge(self, pre, ms, ev, post, rec, ctx):
        return self._digest(post)

    def on_error(self, pre, ms, ev, exc, ctx):
        # a hand that cannot be completed cannot award its pots; histories with an explicit muck are the
        # known showdown-muck defects (C07 findings) and are not judged here
        from ..explore import exc_signature, error_shape
        shape = error_shape(ctx.cfg, list(ctx.path) + [ev], pre, ev)
        if 'after-muck' in shape or 'after-unfaced-fold' in shape:
            ctx.counters['exceptions_after_muck_not_judged'] += 1
            return
        sig = exc_signature(exc)
        ctx.violation('award-raised', f'{ev} raised {type(exc).__name__}: {exc} at {sig[1]}: {sig[2]}',
                      path=list(ctx.path) + [ev], sig=(self.prop, 'raised') + sig + (shape,))

    def on_terminal(self, st, ms, ctx):
        acc = P.log_accounting(st)
        n = st.player_count
        live = acc['live']
        for note in acc['notes']:
            ctx.violation(note[0], f'{note}', sig=(self.prop, note[0]))
        if [bool(x) for x in st.statuses] != live:
            ctx.violation('live-set', f'engine statuses {st.statuses} vs log {live}', sig=(self.prop, 'live-set'))
        tn = ctx.cfg['hand_types'] if ctx.cfg['game'] == 'custom' else [t.__name__ for t in st.hand_types]
        nb = st.board_count
        boards = [[repr(c) for c in st.get_board_cards(b)] for b in range(nb)]
        hands = []
        for i in range(n):
            if not live[i]:
                hands.append(None)
                continue
            # a hand is judged on the cards its owner has turned face up, as the log tells it: cards dealt face up, plus the
            # known cards of his show records (discards taken out again)
            hole = P.shown_cards(st.operations, i)
            if sorted(hole) != sorted(repr(c) for c, up in zip(st.hole_cards[i], st.hole_card_statuses[i]) if up and repr(c) != '??'):
                ctx.counters['terminals_where_state_and_log_disagree_on_cards_shown'] += 1
            if getattr(self.strength, 'takes_board', False):
                hands.append([[self.strength(hole, boards[b], t) for t in tn] for b in range(nb)])
            else:
                hands.append([[self.strength(hole + boards[b], t) for t in tn] for b in range(nb)])
        if not any(live):
            ctx.violation('nobody-live', f'hand ended with nobody live; pot {sum(acc["in_pot"])} not awarded',
                          sig=(self.prop, 'nobody-live'))
            return
        exp, info = P.award(n, acc['contrib'], acc['pooled'], live,
                            [h if h is not None else [[None] * len(tn)] * nb for h in hands],
                            nb, len(tn), C.DIVMODS.get(ctx.cfg.get('divmod'), P.ref_divmod), (lambda a: st.rake(a, st)) if ctx.cfg.get('rake') else (lambda a: (0, a)),
                            cover=[acc['contrib'][i] + acc['front'][i] for i in range(n)])
        ctx.counters['terminals_compared'] += 1
        # hands discarded by the kill step: judged on the cards shown (as the log tells them), none of them may be a hand that
        # would have been awarded chips had it stayed in
        killed = [o.player_index for o in st.operations if type(o).__name__ == 'HandKilling']
        if killed:
            live2 = list(live)
            hands2 = [h if h is not None else [[None] * len(tn)] * nb for h in hands]
            for j in killed:
                live2[j] = True
                hj = P.shown_cards(st.operations, j)
                if getattr(self.strength, 'takes_board', False):
                    hands2[j] = [[self.strength(hj, boards[b], t) for t in tn] for b in range(nb)]
                else:
                    hands2[j] = [[self.strength(hj + boards[b], t) for t in tn] for b in range(nb)]
            exp2, _ = P.award(n, acc['contrib'], acc['pooled'], live2, hands2, nb, len(tn),
                              C.DIVMODS.get(ctx.cfg.get('divmod'), P.ref_divmod), lambda a: (0, a),
                              cover=[acc['contrib'][i] + acc['front'][i] for i in range(n)])
            ctx.counters['terminals_with_killed_hands_judged_on_shown_cards'] += 1
            if exp2 is not None:
                for j in killed:
                    if exp2[j] > 0:
                        ctx.violation('killed-hand-wins-on-the-cards-shown', f'player {j} was killed but on the cards shown '
                                      f'({[P.shown_cards(st.operations, i) for i in range(n)]}, boards {boards}) his hand is awarded {exp2[j]}',
                                      sig=(self.prop, 'killed-hand-wins-on-the-cards-shown'))
        if exp is None:
            ctx.counters['undetermined_' + info] += 1
            return
        if any(type(o).__name__ == 'RunoutCountSelection' and o.runout_count not in (None, 1) for o in st.operations) and \
                nb > st.starting_board_count:
            ctx.counters['terminals_with_multiple_runouts'] += 1
        if len(info['pots']) > 1:
            ctx.counters['terminals_with_side_pots'] += 1
            if len(tn) > 1 and sum(live) > 1 and any(
                    len(elig) > 1 and all(hands[i][b][t] is None for i in elig)
                    and any(live[j] and j not in elig and hands[j][b][t] is not None for j in range(n))
                    for amt, elig in info['pots'] for b in range(nb) for t in range(len(tn))):
                ctx.counters['terminals_with_a_type_made_only_by_a_non_contender_of_a_side_pot'] += 1
        if len(info['pots']) > 2:
            ctx.counters['terminals_with_2+_side_pots'] += 1
        recv = acc['recv']
        if sum(1 for x in exp if x) > 1:
            ctx.counters['split_outcomes'] += 1
        detail = (f'received {recv} expected {exp}; in pot {acc["in_pot"]} pooled antes {acc["pooled"]} live {live} '
                  f'pots {info["pots"]} hands(strength per board/type) {hands} holes {[list(map(repr, h)) for h in st.hole_cards]} boards {boards}')
        if not all(P.same_chips(a, b) for a, b in zip(recv, exp)):
            shape = 'award'
            if len(tn) > 1 and sum(live) > 1:
                for amt, elig in info['pots']:
                    for b in range(nb):
                        for t in range(len(tn)):
                            if (all(hands[i][b][t] is None for i in elig)
                                    and any(live[j] and j not in elig and hands[j][b][t] is not None for j in range(n))):
                                shape = 'award-type-qualified-only-by-non-contender'
            ctx.violation(shape, detail, sig=(self.prop, shape))
            return
        for i in range(n):
            want = exp[i] - acc['in_pot'][i]
            if not P.same_chips(st.payoffs[i], want):
                ctx.violation('payoff', f'payoff[{i}]={st.payoffs[i]} expected {want}; {detail}', sig=(self.prop, 'payoff'))
            if not live[i] and not P.same_chips(st.payoffs[i], -acc['in_pot'][i]):
                ctx.violation('dead-player-payoff', detail, sig=(self.prop, 'dead-player-payoff'))
            tot = [acc['in_pot'][j] + acc['front'][j] for j in range(n)]   # incl. a survivor's bet left in front
            cap = sum(min(tot[j], tot[i]) for j in range(n) if j != i) + (acc['pooled'] if not st.ante_trimming_status else 0)
            if st.payoffs[i] > cap:
                ctx.violation('won-more-than-covered', f'player {i} won {st.payoffs[i]} > {cap}; {detail}',
                              sig=(self.prop, 'won-more-than-covered'))
        if sum(live) == 1:
            w = live.index(True)
            others = sum(acc['in_pot'][j] for j in range(n) if j != w)
            if st.payoffs[w] != others - info['raked']:
                ctx.violation('lone-survivor', detail, sig=(self.prop, 'lone-survivor'))


def _j(family, cfg, **kw):
    j = {'family': family, 'cfg': cfg}
    j.update(kw)
    return j


ONE = C.KUHN_1
TWO = C.TWO_STREET
DECK = ['Js', 'Jh', 'Qs', 'Qh', 'Ks', 'Kh']
SHOWAUTO = ['ANTE_POSTING', 'BET_COLLECTION', 'BLIND_OR_STRADDLE_POSTING', 'CARD_BURNING', 'HOLE_DEALING',
            'BOARD_DEALING', 'RUNOUT_COUNT_SELECTION', 'HAND_KILLING', 'CHIPS_PUSHING', 'CHIPS_PULLING']


def jobs(tier, seed):
    th = tier == 'thorough'
    out = []
    HI = ('KuhnAny',)
    HILO = ('KuhnAny', 'JQLow')

    def deals(k):
        return [list(p) + [c for c in DECK if c not in p] for p in permutations(DECK, k)]

    # one street, every deal, every history; high only and hi-lo; trimmed and untrimmed antes
    for stacks in [(3, 3), (2, 4), (2, 3, 4), (2, 4, 4), (3, 2, 5), (2, 3, 4, 5)] + ([(5, 3, 2, 4), (3, 3, 5, 5)] if th else []):
        n = len(stacks)
        for ht in (HI, HILO):
            for plan in deals(n):
                out.append(_j(f'1street-{n}p-{"hilo" if len(ht) > 1 else "high"}',
                              C.custom(stacks, ONE, hand_types=ht, antes=1, plan=plan)))
        for plan in deals(n)[::3 if not th else 1]:
            out.append(_j(f'1street-{n}p-untrimmed-short-ante',
                          C.custom(stacks, ONE, hand_types=HILO, antes=3, trim=False, plan=plan)))
            out.append(_j(f'1street-{n}p-manual-showdown',
                          C.custom(stacks, ONE, hand_types=HILO, antes=1, autos=SHOWAUTO, plan=plan),
                          opts={'show': (None, True, False)}))
    # full tables: six and nine players with a ladder of stacks (up to eight side pots), every assignment of ranks to seats (a fixed stride through them, four times finer in the thorough tier),
    # histories within two deviations of "everybody calls" (one shove and everybody calls builds the whole ladder)
    for stacks, step in [((1, 2, 3, 4, 5, 6), 3), ((6, 2, 5, 1, 4, 3), 7), ((1, 2, 3, 4, 5, 6, 7, 8, 9), 41), ((5, 9, 1, 7, 3, 8, 2, 6, 4), 43)]:
        n = len(stacks)
        pats = [r for r in product('JQK', repeat=n) if max(r.count(x) for x in 'JQK') <= 3]
        for ranks in pats[::step if not th else max(1, step // 4)]:
            left = {r: list('shd') for r in 'JQK'}
            plan = [r + left[r].pop(0) for r in ranks]
            out.append(_j(f'1street-{n}p-ladder', C.custom(stacks, ONE, deck='KUHN9', hand_types=HILO, antes=1, plan=plan),
                          opts={'raises': 'minmax'}, dev_bound=2))
    # two streets with a board, 1-2 boards, run-outs (cash), rake
    for stacks in [(3, 4), (2, 3, 5)] + ([(2, 4, 4), (2, 3, 4, 5)] if th else []):
        n = len(stacks)
        for boards in (1, 2):
            step = 1 if (th or n == 2) else 4
            for plan in deals(n + boards)[::step]:
                out.append(_j(f'2street-{n}p-{boards}b-hilo',
                              C.custom(stacks, TWO, hand_types=HILO, antes=1, boards=boards, plan=plan)))
            for plan in deals(n + boards)[::step * 3]:
                if n + 2 * boards <= len(DECK):     # else two run-outs of every board need more cards than the tiny deck holds
                    out.append(_j(f'2street-{n}p-{boards}b-cash-runouts',
                                  C.custom(stacks, TWO, hand_types=HILO, antes=1, boards=boards, mode='cash', plan=plan,
                                           autos=[a for a in SHOWAUTO if a != 'RUNOUT_COUNT_SELECTION'] + ['HOLE_CARDS_SHOWING_OR_MUCKING']),
                                  opts={'runouts': (None, 2)}))
                out.append(_j(f'2street-{n}p-{boards}b-rake',
                              C.custom(stacks, TWO, hand_types=HILO, antes=1, boards=boards, plan=plan,
                                       rake=('pct', 1, 4, 1, False))))
    # a deck with ranks outside the low: a player can be beaten for high and have no low on one board and still win on another
    WIDE = ['As', 'Ks', 'Qs', 'Js', '2s', '2h']
    for stacks in [(3, 4), (2, 3, 5)]:
        n = len(stacks)
        plans = [list(p) + [c for c in WIDE if c not in p] for p in permutations(WIDE, n + 2)]
        for plan in plans[::1 if (th or n == 2) else 3]:
            out.append(_j(f'2street-{n}p-2b-hilo-wide-deck',
                          C.custom(stacks, TWO, deck=WIDE, hand_types=('HighCardAny', 'JQLow'), antes=1, boards=2, plan=plan)))
    # chip types other than int: a chopped pot is shared exactly (thirds of a chip, quarter chips); and a caller-supplied split
    # rule that differs from the default (shares in whole pairs of chips) must govern every split: boards, hand types, winners
    for chips in ('fraction', 'decimal', 'pairs'):
        for boards, ht in ((2, ('KuhnAny', 'JQLow')), (1, ('KuhnAny',))):
            for ranks in product('JQK', repeat=3 + boards):
                if max(ranks.count(r) for r in 'JQK') > 3:
                    continue
                left = {r: list('shd') for r in 'JQK'}
                plan = [r + left[r].pop(0) for r in ranks]
                kw = {'divmod': 'pairs'} if chips == 'pairs' else {'chips': chips}
                out.append(_j(f'chips-{chips}' if chips != 'pairs' else 'caller-supplied-divmod',
                              C.custom((3, 3, 3) if boards == 2 else (2, 3, 5), TWO, deck='KUHN9', hand_types=ht, antes=1,
                                       blinds=(1, 2), boards=boards, plan=plan, **kw), opts={'raises': 'minmax'}))
    # hands are judged on the cards shown: hold'em cash games, all-in before the river, showdown by hand with partial shows (the
    # first hole card only) - the hidden card would have won (pairs the board), the shown cards lose
    from .. import dealplan as D
    manual_show = ['ANTE_POSTING', 'BET_COLLECTION', 'BLIND_OR_STRADDLE_POSTING', 'CARD_BURNING', 'HOLE_DEALING', 'BOARD_DEALING',
                   'RUNOUT_COUNT_SELECTION', 'HAND_KILLING', 'CHIPS_PUSHING', 'CHIPS_PULLING']
    for stacks, holes in [((2, 3), [['Ah', 'Kd'], ['Qc', 'Qs']]), ((3, 2), [['Qc', 'Qs'], ['Ah', 'Kd']]),
                          ((2, 3, 4), [['Ah', 'Kd'], ['Qc', 'Qs'], ['Jc', 'Ts']])]:
        cfg = C.nt(stacks, mode='cash', autos=manual_show)
        place = {('hole', i): h for i, h in enumerate(holes)}
        place[('board', 0)] = ['Kc', '7d', '2s', '5h', '9c']
        out.append(_j('cash-partial-shows', dict(cfg, plan=D.plan(D.destinations(cfg), place)),
                      opts={'raises': 'minmax', 'show': (None, True, 'partial')}, real=True, dev_bound=4))
    # eight-handed stud checked down: the deck cannot supply eight seventh-street cards, the street is dealt as one community
    # card, and the pots go to the best hands made of seven own cards... plus that card (real hand types, independent evaluator)
    std = [r + u for r in '23456789TJQKA' for u in 'cdhs']
    for game in ('FixedLimitSevenCardStud', 'FixedLimitSevenCardStudHighLowSplitEightOrBetter', 'FixedLimitRazz'):
        for rot in range(6 if not th else 13):
            k = (rot * 7) % 52
            plan = std[k:] + std[:k]
            if rot % 2:
                plan = plan[::-1]
            out.append(_j('stud-8-handed-community-card', C.stud((20,) * 8, game=game, plan=plan), opts={'fold': False, 'raises': 'none'},
                          dev_bound=0, real=True))
    for j in out:
        j.setdefault('state_cap', 200000)
        j.setdefault('time_cap', 600)
    return out


def real_strength(cards, tname):
    """strength of the best hand of a real (52-card) hand type among the given cards, by the independent evaluator"""
    from ..refs import handeval as H
    cs = [c for c in cards if c and c != '??']
    b = H.best(tname, cs, ())
    return None if b is None else b[0]


def real_strength_hb(hole, board, tname):
    """the same with hole and board cards kept apart (Omaha: exactly two hole cards)"""
    from ..refs import handeval as H
    b = H.best(tname, [c for c in hole if c and c != '??'], [c for c in board if c and c != '??'])
    return None if b is None else b[0]


real_strength_hb.takes_board = True


def run_job(job):
    if job.get('real'):
        r, ctx = sx.run(job, [PotsMonitor('C02', strength=real_strength)], validated='terminals_compared')
        if job['family'].startswith('stud-8'):
            r['counters']['community_card_terminals'] = sum(1 for _ in [0] if r['counters'].get('terminals_compared'))
        return r
    r, ctx = sx.run(job, [PotsMonitor('C02')], validated='terminals_compared')
    return r


def sanity(agg, counters, fam, tier):
    msgs = []
    for k in ('terminals_with_side_pots', 'split_outcomes', 'terminals_with_2+_side_pots', 'terminals_with_multiple_runouts'):
        if not counters.get(k):
            msgs.append(f'{k} == 0')
    return msgs


def bounds(tier):
    return ('6-card two-suit deck (J,Q,K x s,h): every deal; 2-3 players (thorough 4); stacks 2..5; one and two streets; '
            '1-2 boards; run-outs 1-2; hand types (Kuhn-high) and (Kuhn-high, JQ-low)')
