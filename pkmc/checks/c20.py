"""C20 - importing a poker-site log yields a history that reproduces the log's outcome.

Explicit-state exploration of no-limit hold'em hands on the real State; every terminal hand is
rendered (refs/sites.py) in each of the six supported site formats for every button position,
imported with the real ``HandHistory.from_<site>`` and replayed, and compared with the hand that
was rendered.  Uninterpretable variants of each log must be reported, never imported.
"""
import warnings
from collections import Counter
from decimal import Decimal

from .. import env
from ..alphabet import opts as mk_opts
from ..explore import explore
from ..refs import sites as SITES

PROPERTY = 'C20'
LEVEL = 'model_checking'
RULE = ('every terminal no-limit hold\'em hand (2-4 seats; thorough 5-6 within k deviations) over stack vectors from {6,9,14}, blinds '
        '(1,2), int and two-decimal chips, fold-outs and showdowns (known cards, auto showdown so losers muck) x every button position x '
        'seat numberings with and without gaps x hero seat x 6 site formats; plus three uninterpretable variants per log. distinct '
        'non-trivial = distinct (site, imported action list) pairs')
ASSUMPTIONS = ['the renderers encode each site\'s layout and raise-amount convention from public format knowledge cross-read against the '
               'importer\'s patterns; no site corpus is available offline, so the check decides consistency of importer and engine under '
               'those conventions (weaker trusted base than the other checks, see DESIGN.md C20)',
               'warnings are ignored on well-formed logs (the importers warn about their own time_zone_abbreviation field on every hand)',
               'the winnings / finishing_stacks metadata fields are not judged, only the replayed outcome']

NAMES = ['Al ice', 'Bob_2', 'Cy', 'Dee99', 'Eve', 'Fox', 'G.G', 'Hal-9', 'Ivy']
METHOD = {k: 'from_' + k for k in SITES.RENDER}


def conv_of(chips):
    if chips == 'decimal':
        return lambda x: Decimal(x) * Decimal('0.50')
    return lambda x: x


def mk_state(cfg):
    pk = env.pokerkit
    S = env.S
    cv = conv_of(cfg.get('chips'))
    st = pk.NoLimitTexasHoldem.create_state(tuple(S.Automation), True, 0, (cv(1), cv(2)), cv(2), tuple(cv(s) for s in cfg['stacks']),
                                            len(cfg['stacks']), mode=S.Mode.CASH_GAME)
    return st


def bet_lines(actions):
    return [a for a in actions if a.split()[1] in ('f', 'cc', 'cbr')]


def expected_bets(ops):
    out = []
    for o in ops:
        nm = type(o).__name__
        if nm == 'Folding':
            out.append(f'p{o.player_index + 1} f')
        elif nm == 'CheckingOrCalling':
            out.append(f'p{o.player_index + 1} cc')
        elif nm == 'CompletionBettingOrRaisingTo':
            out.append(f'p{o.player_index + 1} cbr {o.amount}')
    return out


def seatings(n, variant):
    """(seat number per engine player index, button seat) for every button position"""
    base = list(range(1, n + 1)) if variant == 0 else [2, 5, 7, 9, 10, 12, 13, 15, 16][:n]
    out = []
    for b in range(n):
        if n == 2:
            seats = [None, None]
            seats[1] = base[b]                 # engine player 1 is the button / small blind
            seats[0] = base[(b + 1) % 2]
        else:
            seats = [base[(b + 1 + i) % n] for i in range(n)]     # engine player 0 is the small blind, n-1 the button
        out.append((seats, base[b]))
        if variant == 1 and n == 2:
            # heads-up with the button marker on an empty seat: the small blind is the button, whoever the marker is nearest to
            out.append((seats, 4 if b == 0 else 8))
        if variant == 1 and n >= 3:
            # dead button: the button is on an empty seat between the last player to act and the small blind
            last, sb = seats[n - 1], seats[0]
            cand = last + 1 if last + 1 not in base else None
            if cand is not None and (last < sb and cand < sb or last > sb):
                out.append((seats, cand))
    return out


class Importer:
    name = 'importer'

    def __init__(self, cfg):
        self.cfg = cfg
        self.seen = set()
        self.k = 0
        self.prev = {}

    def on_terminal(self, st, ms, ctx):
        from pokerkit.notation import HandHistory as H
        n = st.player_count
        self.k += 1
        ops = list(st.operations)
        exp_bets = expected_bets(ops)
        sym = '$' if self.k % 3 else ''
        allseat = seatings(n, self.k % 2)
        if n > 4:
            # full tables: three button positions per hand, rotating with the hand number (every position over the run)
            pick = {(self.k + j * (len(allseat) // 3 or 1)) % len(allseat) for j in range(3)}
            allseat = [x for j, x in enumerate(allseat) if j in pick]
        for sno, (seats, button) in enumerate(allseat):
            hero = (self.k // 2) % n
            hand = SITES.Hand(st, NAMES[:n], seats, button, hero, hand_no=1000 + self.k, sym=sym)
            for site, render in SITES.RENDER.items():
                if site == 'ipoker_network' and button not in seats:
                    continue            # the XML marks the dealer on a player element; a dead button cannot be written
                text = render(hand)
                cfgd = {'site': site, 'seats': seats, 'button': button, 'hero': hero}
                ctx.counters['logs_imported'] += 1
                ctx.counters[f'logs[{site}]'] += 1
                # every third hand is imported with a caller-supplied value parser (dollars -> integer cents): every amount of
                # the imported history, metadata included, must then be in cents
                cents = self.k % 3 == 0 and self.scales_cleanly(st, ctx)
                scale = 100 if cents else 1
                kw = {'parse_value': (lambda t: int(Decimal(t.replace(',', '')) * 100))} if cents else {}
                try:
                    with warnings.catch_warnings():
                        warnings.simplefilter('ignore')
                        hs = list(getattr(H, METHOD[site])(text, error_status=True, **kw))
                except Exception as exc:
                    cause = exc.__cause__ or exc.__context__
                    ctx.violation('import-raised', f'{cfgd}: {type(exc).__name__}; cause {cause!r}\n{text}',
                                  sig=('C20', 'import-raised', site, type(cause).__name__ if cause else type(exc).__name__),
                                  extra={'site_cfg': cfgd})
                    continue
                if len(hs) != 1:
                    ctx.violation('import-count', f'{cfgd}: {len(hs)} histories from one hand\n{text}', sig=('C20', 'import-count', site),
                                  extra={'site_cfg': cfgd})
                    continue
                hh = hs[0]
                bad = []
                if list(hh.players) != NAMES[:n]:
                    bad.append(('players', hh.players, NAMES[:n]))
                if list(hh.seats or []) != list(seats):
                    bad.append(('seats', hh.seats, seats))
                if list(hh.blinds_or_straddles) != [b * scale for b in st.blinds_or_straddles]:
                    bad.append(('blinds', hh.blinds_or_straddles, [b * scale for b in st.blinds_or_straddles]))
                if any(hh.antes):
                    bad.append(('antes', hh.antes, 0))
                if list(hh.starting_stacks) != [x * scale for x in st.starting_stacks]:
                    bad.append(('stacks', hh.starting_stacks, [x * scale for x in st.starting_stacks]))
                if hh.min_bet != st.blinds_or_straddles[1] * scale:
                    bad.append(('min_bet', hh.min_bet, st.blinds_or_straddles[1] * scale))
                # what the log says each player collected (sites and names for which the importer's pattern applies)
                if site in ('pokerstars', 'full_tilt_poker', 'absolute_poker', 'ongame_network', 'partypoker') and hh.winnings is not None:
                    for i in range(n):
                        if site == 'partypoker' and ' ' in NAMES[i]:
                            continue
                        if hh.winnings[i] != hand.collected[i] * scale:
                            bad.append(('winnings', list(hh.winnings), [c * scale for c in hand.collected]))
                            break
                    ctx.counters['winnings_fields_compared'] += 1
                got_bets = bet_lines(hh.actions)
                if [' '.join(a.split()[:2]) for a in got_bets] != [' '.join(a.split()[:2]) for a in exp_bets] or \
                        [Decimal(a.split()[2]) for a in got_bets if ' cbr ' in a] != [Decimal(a.split()[2]) * scale for a in exp_bets if ' cbr ' in a]:
                    bad.append(('betting actions', got_bets, exp_bets))
                got_board = ''.join(a.split()[2] for a in hh.actions if a.startswith('d db'))
                if got_board != ''.join(sum(hand.boards, [])):
                    bad.append(('board', got_board, ''.join(sum(hand.boards, []))))
                shown = {int(a.split()[0][1:]) - 1: a.split()[2] for a in hh.actions if ' sm ' in a and len(a.split()) > 2 and '?' not in a.split()[2]}
                exp_shown = {i: ''.join(cs) for i, cs in hand.shows.items() if cs}
                if site != 'ipoker_network' and shown != exp_shown:
                    bad.append(('shown hands', shown, exp_shown))
                if site in ('pokerstars', 'ipoker_network'):
                    dealt = {int(a.split()[2][1:]) - 1: a.split()[3] for a in hh.actions if a.startswith('d dh')}
                    if dealt.get(hero) != ''.join(hand.holes[hero]):
                        bad.append(('hero cards', dealt.get(hero), ''.join(hand.holes[hero])))
                for what, got, exp in bad:
                    ctx.violation('imported-hand-differs', f'{cfgd}: {what}: imported {got!r}, the hand that was rendered has {exp!r}\n{text}',
                                  sig=('C20', 'imported-hand-differs', site, what), extra={'site_cfg': cfgd})
                if bad:
                    continue
                try:
                    fin = list(hh)[-1]
                except Exception as exc:
                    ctx.violation('replay-raised', f'{cfgd}: {type(exc).__name__}: {exc}', sig=('C20', 'replay-raised', site),
                                  extra={'site_cfg': cfgd})
                    continue
                ctx.counters['imports_replayed'] += 1
                self.seen.add((site, tuple(hh.actions)))
                # a log file holds many hands: this hand appended to the previous one (another history, seating and hand number)
                # must import as exactly those two histories, in order
                if not cents and sno == 0:
                    prev = self.prev.get(site)
                    if prev is not None and prev[0] != text:
                        ctx.counters['two_hand_logs_imported'] += 1
                        try:
                            with warnings.catch_warnings():
                                warnings.simplefilter('ignore')
                                both = list(getattr(H, METHOD[site])(prev[0] + text, error_status=True))
                            got2 = [h.dumps() for h in both]
                        except Exception as exc:
                            got2 = f'{type(exc).__name__}: {exc}'
                        if got2 != [prev[1], hh.dumps()]:
                            ctx.violation('two-hand-log', f'{cfgd}: the previous hand followed by this one does not import as the two '
                                          f'histories they give one at a time: {got2 if isinstance(got2, str) else len(got2)}\n{prev[0]}{text}',
                                          sig=('C20', 'two-hand-log', site), extra={'site_cfg': cfgd})
                    self.prev[site] = (text, hh.dumps())
                if fin.status or list(fin.stacks) != [x * scale for x in st.stacks]:
                    kinds = [type(o).__name__ for o in ops]
                    if 'HoleCardsShowingOrMucking' not in kinds:
                        shape = 'no-showdown'
                    elif 'BoardDealing' in kinds[kinds.index('HoleCardsShowingOrMucking'):]:
                        shape = 'all-in-showdown-before-the-river'
                    else:
                        shape = 'river-showdown'
                    ctx.violation('outcome-differs', f'{cfgd}: the log says stacks end at {list(st.stacks)}, the imported history replays to '
                                  f'{list(fin.stacks)} (status {fin.status})\n{text}', sig=('C20', 'outcome-differs', site, shape),
                                  extra={'site_cfg': cfgd})
                # uninterpretable variants must be reported
                if self.k % 4 == 0 and seats == seatings(n, self.k % 2)[0][0]:
                    self.corrupt(H, site, text, hand, ctx, cfgd)

    def scales_cleanly(self, st, ctx):
        """does the same hand played with chips x 100 end with 100 x the stacks?  (not when an odd chip was handed out: in cents the
        pot divides evenly, and the log - written in whole units - would state another split)"""
        key = tuple(ctx.path)
        if getattr(self, '_sc_key', None) == key:
            return self._sc_val
        cfg2 = dict(self.cfg)
        if cfg2.get('chips'):
            self._sc_key, self._sc_val = key, False
            return False
        pk = env.pokerkit
        S = env.S
        st2 = pk.NoLimitTexasHoldem.create_state(tuple(S.Automation), True, 0, (100, 200), 200, tuple(x * 100 for x in self.cfg['stacks']),
                                                 len(self.cfg['stacks']), mode=S.Mode.CASH_GAME)
        ok = True
        try:
            for ev in ctx.path:
                if ev[0] == 'complete_bet_or_raise_to' and ev[1] is not None:
                    st2.complete_bet_or_raise_to(ev[1] * 100)
                else:
                    getattr(st2, ev[0])(*ev[1:])
            ok = list(st2.stacks) == [x * 100 for x in st.stacks]
        except Exception:
            ok = False
        if not ok:
            ctx.counters['hands_with_an_odd_chip_not_imported_in_cents'] += 1
        self._sc_key, self._sc_val = key, ok
        return ok

    def corrupt(self, H, site, text, hand, ctx, cfgd):
        lines = text.split('\n')
        variants = []
        big = str(sum(hand.stacks) * 10)
        import re
        for i, ln in enumerate(lines):
            if re.search(r'( raises | Raises | bets | Bets |type="23"|type="5")', ln) and 'collected' not in ln:
                if site == 'ipoker_network':
                    new = re.sub(r'sum="\D?[0-9.]+"', f'sum="{hand.sym}{big}"', ln)
                else:
                    head, sep, tail = re.split(r'( raises | Raises | bets | Bets )', ln, maxsplit=1)
                    new = head + sep + re.sub(r'[0-9]+(\.[0-9]+)?', big, tail)        # every amount on the line
                if new != ln:
                    variants.append(('oversize-raise', lines[:i] + [new] + lines[i + 1:]))
                break
        key = {'pokerstars': 'is the button', 'full_tilt_poker': 'The button is in seat', 'partypoker': 'is the button',
               'absolute_poker': 'is the dealer', 'ongame_network': 'Button: seat', 'ipoker_network': None}[site]
        if key:
            v = [ln for ln in lines if key not in ln] if site not in ('pokerstars', 'absolute_poker') else \
                [ln.split(' Seat #')[0] if key in ln else ln for ln in lines]
            variants.append(('no-button', v))
        for what, v in variants:
            t2 = '\n'.join(v)
            ctx.counters['corrupted_logs'] += 1
            try:
                with warnings.catch_warnings():
                    warnings.simplefilter('ignore')
                    hs = list(getattr(H, METHOD[site])(t2, error_status=True))
            except ValueError:
                ctx.counters['corrupted_logs_reported'] += 1
                # and as a warning when errors are off
                with warnings.catch_warnings(record=True) as w:
                    warnings.simplefilter('always')
                    hs2 = list(getattr(H, METHOD[site])(t2, error_status=False))
                if hs2 or not any('Unable to parse' in str(x.message) for x in w):
                    ctx.violation('corrupt-log-not-warned', f'{cfgd} {what}: with error_status=False {len(hs2)} histories, warnings '
                                  f'{[str(x.message)[:40] for x in w]}', sig=('C20', 'corrupt-log-not-warned', site, what), extra={'site_cfg': cfgd})
                continue
            except Exception as exc:
                ctx.counters['corrupted_logs_other_exception'] += 1
                continue
            if hs:
                ctx.violation('corrupt-log-imported', f'{cfgd} {what}: an uninterpretable log was imported as {hs[0].actions}\n{t2}',
                              sig=('C20', 'corrupt-log-imported', site, what), extra={'site_cfg': cfgd})
            else:
                ctx.counters['corrupted_logs_yield_nothing'] += 1


def cfgs(tier):
    th = tier == 'thorough'
    out = []
    for stacks in [(6, 9), (9, 6)]:
        out.append(({'stacks': stacks, 'raises': 'all'}, 3 if th else 2))
    out.append(({'stacks': (14, 14), 'raises': 'minmax'}, 4 if th else 3))
    for stacks in [(6, 9, 14), (14, 6, 9)] + ([(9, 9, 9)] if th else []):
        out.append(({'stacks': stacks, 'raises': 'minmax'}, 3 if th else 2))
    for stacks in [(6, 9, 14, 9)] + ([(14, 14, 6, 9)] if th else []):
        out.append(({'stacks': stacks, 'raises': 'minmax'}, 2 if th else 1))
    out.append(({'stacks': (6, 9), 'raises': 'all', 'chips': 'decimal'}, 3 if th else 2))
    out.append(({'stacks': (9, 14, 6), 'raises': 'minmax', 'chips': 'decimal'}, 2 if th else 1))
    if th:
        out.append(({'stacks': (9, 14, 6, 9, 14), 'raises': 'minmax'}, 2))
    # full tables: six and nine seats
    out.append(({'stacks': (9, 14, 6, 9, 14, 6), 'raises': 'minmax'}, 2 if th else 1))
    out.append(({'stacks': (9, 14, 6, 9, 14, 6, 12, 7, 9), 'raises': 'minmax'}, 1))
    return out


def jobs(tier, seed):
    from itertools import product
    out = []
    for cfg, k in cfgs(tier):
        n = len(cfg['stacks'])
        width = 8 if cfg['raises'] == 'all' else 4
        for pc in product(range(width), repeat=2):
            out.append({'family': f'nlhe-{n}-seats' + ('-decimal' if cfg.get('chips') else ''), 'cfg': cfg, 'dev_bound': k, 'prefix_choice': pc})
    out.sort(key=lambda j: (-len(j['cfg']['stacks']), j['prefix_choice']))
    if seed:
        r = seed % len(out)
        out = out[r:] + out[:r]
    return out


def run_job(job):
    from ..alphabet import legal_menu
    cfg = job['cfg']
    env.set_warnings('ignore')
    o = mk_opts(raises=cfg['raises'], runouts=(None,))
    mon = Importer(cfg)
    pc = job['prefix_choice']

    def menu(st, node):
        evs = legal_menu(st, o)
        if node.depth < len(pc):
            return evs[pc[node.depth]:pc[node.depth] + 1]
        return evs
    stats, ctx = explore(cfg, monitors=[mon], menu=menu, menu_opts=o, dev_bound=job['dev_bound'], merge=False,
                         build=mk_state, sample_every=1)
    for v in ctx.violations:
        v['family'] = job['family']
    return {'family': job['family'], 'stats': stats, 'violations': ctx.violations, 'counters': dict(ctx.counters),
            'validated': ctx.counters.get('imports_replayed', 0), 'samples': [{'cfg': cfg, 'events': s} for s in ctx.samples[:1]],
            'merge': mon.seen, 'dev_bound': job['dev_bound']}


def finalize(merges, tier):
    allc = set()
    for m in merges:
        allc |= m
    c = Counter({'distinct_imports': len(allc)})
    for site in SITES.RENDER:
        c[f'distinct_imports[{site}]'] = sum(1 for x in allc if x[0] == site)
    return [], c, {'distinct': len(allc)}


def sanity(agg, counters, fam, tier):
    msgs = [f'{k} == 0' for k in ('imports_replayed', 'corrupted_logs', 'corrupted_logs_reported', 'two_hand_logs_imported') if not counters.get(k)]
    for site in SITES.RENDER:
        if not counters.get(f'distinct_imports[{site}]'):
            msgs.append(f'no imports for {site}')
    return msgs


def bounds(tier):
    return '; '.join(f'stacks {c["stacks"]} raises={c["raises"]} chips={c.get("chips", "int")} k={k}' for c, k in cfgs(tier)) + \
        '; every button position, 2 seat numberings, 6 sites'


def replay(doc):
    from ..alphabet import apply
    from pokerkit.notation import HandHistory as H
    env.set_warnings('ignore')
    cfg = doc['cfg']
    print('oracle:', doc.get('oracle'), '|', str(doc.get('detail'))[:3000])
    st = mk_state(cfg)
    for ev in doc['events']:
        apply(st, tuple(ev))
    sc = doc.get('site_cfg')
    if not sc:
        return 1
    hand = SITES.Hand(st, NAMES[:st.player_count], sc['seats'], sc['button'], sc['hero'])
    text = SITES.RENDER[sc['site']](hand)
    try:
        hs = list(getattr(H, METHOD[sc['site']])(text, error_status=True))
    except Exception as exc:
        print('import raised', type(exc).__name__, repr(exc.__cause__ or exc.__context__))
        return 1
    hh = hs[0]
    fin = list(hh)[-1]
    print('imported players', hh.players, 'seats', hh.seats, 'blinds', hh.blinds_or_straddles, 'stacks', hh.starting_stacks)
    print('imported actions', hh.actions)
    print('expected betting', expected_bets(st.operations))
    print('replay stacks', fin.stacks, 'log stacks', st.stacks)
    ok = list(fin.stacks) == list(st.stacks) and [' '.join(a.split()[:2]) for a in bet_lines(hh.actions)] == \
        [' '.join(a.split()[:2]) for a in expected_bets(st.operations)] and list(hh.players) == NAMES[:st.player_count]
    return 0 if ok else 1
