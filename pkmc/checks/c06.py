"""C06 - cards are conserved (invariant + per-operation movement monitor)."""
from .. import sx, configs as C
from ..refs.cards import CardsMonitor

PROPERTY = 'C06'
LEVEL = 'model_checking'
RULE = ('every operation sequence per configuration (BFS, canonical-state dedup, deviation bound where stated); '
        'multiset of the six card containers == configured deck after every logged operation, plus a '
        'card-movement monitor per operation (source/target pile, top of deck, replenish only when needed)')
ASSUMPTIONS = [
    'engine-chosen cards: warnings ignored; explicit/unknown-card families run with warnings as errors',
    'decks are admissible: large enough for the cards that can be in hands at once + one burn + one board card',
]


NO_RUNOUT_AUTO = ['ANTE_POSTING', 'BET_COLLECTION', 'BLIND_OR_STRADDLE_POSTING', 'CARD_BURNING', 'HOLE_DEALING', 'BOARD_DEALING',
                  'HOLE_CARDS_SHOWING_OR_MUCKING', 'HAND_KILLING', 'CHIPS_PUSHING', 'CHIPS_PULLING']


def _j(family, cfg, **kw):
    j = {'family': family, 'cfg': cfg}
    j.update(kw)
    return j


def jobs(tier, seed):
    th = tier == 'thorough'
    out = []
    k = 3 if th else 2
    # flop games, engine-dealt, full depth on small stacks
    for stacks in [(2, 3), (3, 5, 8), (5, 2, 5)] + ([(4, 4, 4, 4), (8, 8, 8)] if th else []):
        for autos in ('ALL', 'NONE'):
            out.append(_j('NT', C.nt(stacks, autos=autos), opts={'raises': 'minmax', 'show': (None, True, False)}))
        out.append(_j('NT-cash-runouts', C.nt(stacks, mode='cash', autos=NO_RUNOUT_AUTO), opts={'raises': 'minmax', 'runouts': (None, 1, 2, 3)}))
        out.append(_j('PO-2boards', C.nt(stacks, game='PotLimitOmahaHoldem', boards=2), opts={'raises': 'minmax'}))
        out.append(_j('NS', C.nt(stacks, antes=1, game='NoLimitShortDeckHoldem', blinds=(0, 2)), opts={'raises': 'minmax'}))
        out.append(_j('NR-20-card-deck', C.nt(stacks, game='NoLimitRoyalHoldem', mode='cash', autos=NO_RUNOUT_AUTO),
                      opts={'raises': 'minmax', 'runouts': (None, 2, 3)}))
    # stud, 52 cards
    for stacks in [(3, 6), (3, 5, 9)] + ([(9, 2, 4), (4, 6, 8, 3)] if th else []):
        for game in ('FixedLimitSevenCardStud', 'FixedLimitRazz', 'FixedLimitSevenCardStudHighLowSplitEightOrBetter'):
            out.append(_j(game, C.stud(stacks, game=game), dev_bound=k + 1, opts={'show': (None, False)}))
    # stud on the 20-card deck: 3 players -> replenish and hole-to-board fallback
    for stacks in [(20, 20, 20), (9, 20, 14)]:
        out.append(_j('stud-royal-deck', C.stud(stacks, deck_override='ROYAL_POKER', autos='ALL'),
                      dev_bound=k, opts={'fold': True}))
    out.append(_j('stud-royal-deck-manual', C.stud((20, 20, 20), deck_override='ROYAL_POKER', autos='NONE'),
                  dev_bound=1 if not th else 2, opts={'deal': 'rich'}))
    # 7-8 handed stud on 52 cards: deck exhausted on seventh street
    for n in (7, 8):
        out.append(_j(f'stud-{n}-handed', C.stud((40,) * n), dev_bound=1 if not th else 2, opts={'fold': True}))
        out.append(_j(f'razz-{n}-handed', C.stud((40,) * n, game='FixedLimitRazz'), dev_bound=0 if not th else 1))
    # draw games with discard-all in the alphabet: deck exhaustion through discards
    for stacks in [(9, 9), (9, 9, 9)] + ([(9, 9, 9, 9)] if th else []):
        for game in ('FixedLimitDeuceToSevenLowballTripleDraw', 'FixedLimitBadugi'):
            out.append(_j(game, C.fl(stacks, game=game), opts={'discards': ('none', 'first', 'all')}, dev_bound=k + 1))
        out.append(_j('ND27', C.nt(stacks, game='NoLimitDeuceToSevenLowballSingleDraw'),
                      opts={'raises': 'minmax', 'discards': ('none', 'two', 'all')}, dev_bound=k + 1))
    # 6-handed triple draw, everybody discards everything: 30 + 3*30 cards needed from 52
    for n in (5, 6):
        out.append(_j(f'triple-draw-{n}-handed-discard-all',
                      C.fl((30,) * n, game='FixedLimitDeuceToSevenLowballTripleDraw'),
                      opts={'discards': ('all', 'none'), 'discard_default': 'all', 'fold': False, 'raises': 'none'}, dev_bound=2 if not th else 4))
    # custom street lists
    out.append(_j('custom-hole+board-one-street', C.custom((3, 4), [
        (True, (False, True), 1, False, 'POSITION', 1, None), (False, (), 2, False, 'POSITION', 1, None)],
        deck='KUHN9', hand_types=('KuhnAny',), autos='NONE', boards=2), opts={'deal': 'rich'}))
    # the documented Kuhn poker state: three-card deck, two players (one card left over) and three players (deck dealt out)
    for stacks in [(2, 2), (3, 2), (2, 2, 2)]:
        for autos in ('ALL', 'NONE'):
            out.append(_j('kuhn-3-card-deck', C.custom(stacks, C.KUHN_1, deck='KUHN_POKER', hand_types=('KuhnPokerHand',), antes=1,
                                                       structure='FL', autos=autos), opts={'show': (None, True, False), 'deal': 'rich' if autos == 'NONE' else 'default'}))
    # explicit / unknown cards mixed with engine-dealt ones, warnings as errors
    for cfg in [C.nt((3, 4), autos=['ANTE_POSTING', 'BET_COLLECTION', 'BLIND_OR_STRADDLE_POSTING', 'HAND_KILLING', 'CHIPS_PUSHING', 'CHIPS_PULLING']),
                C.stud((3, 5), autos=['ANTE_POSTING', 'BET_COLLECTION', 'HAND_KILLING', 'CHIPS_PUSHING', 'CHIPS_PULLING'])]:
        out.append(_j('explicit-unknown-mix', cfg, warn='error',
                      opts={'deal': 'mix', 'raises': 'min', 'show': (None,)}, dev_bound=k + 1))
    # draw games whose hole cards are dealt by hand as a mix of known and unknown cards; several unknown cards discarded at once
    manual_deal = ['ANTE_POSTING', 'BET_COLLECTION', 'BLIND_OR_STRADDLE_POSTING', 'CARD_BURNING', 'HAND_KILLING', 'CHIPS_PUSHING', 'CHIPS_PULLING']
    for cfg in [C.nt((9, 9), game='NoLimitDeuceToSevenLowballSingleDraw', autos=manual_deal),
                C.fl((9, 9), game='FixedLimitBadugi', autos=manual_deal)]:
        out.append(_j('draw-explicit-unknown-mix', cfg, warn='error',
                      opts={'deal': 'mix', 'raises': 'none', 'fold': False, 'show': (None,), 'discards': ('none', 'unknowns', 'two')},
                      dev_bound=k))
    # manual showdowns in cash games: partial shows (some hole cards stay face down) before and on the last street
    manual_show = ['ANTE_POSTING', 'BET_COLLECTION', 'BLIND_OR_STRADDLE_POSTING', 'CARD_BURNING', 'HOLE_DEALING', 'BOARD_DEALING',
                   'RUNOUT_COUNT_SELECTION', 'HAND_KILLING', 'CHIPS_PUSHING', 'CHIPS_PULLING']
    for cfg in [C.nt((2, 3), mode='cash', autos=manual_show), C.nt((3, 5, 4), mode='cash', autos=manual_show),
                C.nt((3, 2), mode='cash', autos=manual_show, game='PotLimitOmahaHoldem', boards=2)]:
        out.append(_j('cash-manual-partial-shows', cfg, opts={'raises': 'minmax', 'show': (None, True, False, 'partial')}, dev_bound=k + 2))
    for j in out:
        j.setdefault('state_cap', 600000 if th else 80000)
        j.setdefault('time_cap', 1800 if th else 400)
    return out


def run_job(job):
    r, ctx = sx.run(job, [CardsMonitor('C06')], validated='card_updates_checked')
    return r


def sanity(agg, counters, fam, tier):
    msgs = []
    for k in ('replenish_seen', 'discards_seen', 'mucks_seen', 'states_with_3+_boards', 'discards_of_2+_unknown_cards_from_mixed_holes'):
        if not counters.get(k):
            msgs.append(f'{k} == 0: the family built to reach it never did')
    return msgs


def bounds(tier):
    return 'see families in evidence; deviation bound per family; decks 52/36/20/9 cards'
