"""C17 - ACPC and Pluribus protocol output describes the hand that was played.

Explicit-state exploration in path mode over fixed-limit and no-limit hold'em: at every node the
real ``to_acpc_protocol`` (every viewer seat) and ``to_pluribus_protocol`` are compared with an
independent renderer fed the operation log of the hand that was played, and every terminal line
is parsed back with the real ``from_acpc_protocol`` and replayed (closing the loop).
"""
from collections import Counter

from .. import env
from ..alphabet import opts as mk_opts
from ..explore import explore, exc_signature
from ..refs import protocol as P

PROPERTY = 'C17'
LEVEL = 'model_checking'
RULE = ('every history of no-limit (every raise size) and fixed-limit hold\'em with equal stacks, 2-3 players full depth and 4-6 players '
        'within k deviations, known cards, automatic and manual showdown (so mucked hands occur), compressed and uncompressed dealing '
        'records; every viewer seat; protocol output compared at every history whose next step is a player decision or that is '
        'terminal; every terminal line parsed back and replayed. distinct non-trivial = distinct protocol lines')
ASSUMPTIONS = ['histories cut inside dealing or showdown are not judged (the loader completes them with unknown cards / mucks before rendering)',
               'hand number and player names are passed explicitly']


def mk_game(cfg, cash=True):
    from ..configs import autos_of
    pk = env.pokerkit
    S = env.S
    autos = autos_of(cfg['autos'])
    kw = {'mode': S.Mode.CASH_GAME} if cash else {}
    if cfg['code'] == 'NT':
        return pk.NoLimitTexasHoldem(autos, True, 0, (1, 2), 2, **kw)
    return pk.FixedLimitTexasHoldem(autos, True, 0, (1, 2), 2, 4, **kw)


def bet_norm(ops):
    out = []
    for o in ops:
        n = type(o).__name__
        if n == 'Folding':
            out.append(('f', o.player_index))
        elif n == 'CheckingOrCalling':
            out.append(('c', o.player_index, o.amount))
        elif n == 'CompletionBettingOrRaisingTo':
            out.append(('r', o.player_index, o.amount))
    return out


class Proto:
    name = 'protocol'

    def __init__(self, cfg, game):
        self.cfg = cfg
        self.game = game
        self.lines = set()
        self.parse_game = mk_game(cfg, cash=False)
        self.skip = False       # shared prefix nodes of a split tree are judged by the first slice only

    def on_state(self, st, ms, menu, ctx):
        from pokerkit.notation import HandHistory as H
        if self.skip:
            return
        code = self.cfg['code']
        n = st.player_count
        nl = code == 'NT'
        terminal = not st.status
        if not terminal and st.actor_index is None:
            ctx.counters['histories_cut_in_dealing_or_showdown_not_judged'] += 1
            return
        ops = list(st.operations)
        ctx.counters['histories_rendered'] += 1
        try:
            hh = H.from_game_state(self.game, st, self.cfg.get('compress', True), hand=7)
        except Exception as exc:
            ctx.violation('writer-raised', f'{type(exc).__name__}: {exc}', sig=('C17', 'writer-raised'))
            return
        pay = [s - t for s, t in zip(st.stacks, st.starting_stacks)]
        # ---- Pluribus form
        if nl:
            exp = P.pluribus_line(ops, n, 7, pay)
            try:
                got = hh.to_pluribus_protocol()
            except Exception as exc:
                sig = exc_signature(exc)
                ctx.violation('pluribus-raised', f'{type(exc).__name__}: {exc}', sig=('C17', 'pluribus-raised') + sig[:2])
                got = None
            if got is not None:
                self.lines.add(got)
                ctx.counters['pluribus_lines_compared'] += 1
                if got != exp:
                    f = _first_field_diff(got, exp, ('STATE', 'hand', 'actions', 'cards', 'payoffs', 'players'))
                    ctx.violation('pluribus-line', f'library: {got}\nreference from the played log: {exp}',
                                  sig=('C17', 'pluribus-line', f, 'terminal' if terminal else 'partial'))
        # ---- ACPC form, every viewer seat
        for seat in range(n):
            exp_msgs = P.acpc_messages(ops, n, seat, 7, nl, terminal, st.actor_index is not None)
            try:
                got_msgs = list(hh.to_acpc_protocol(seat, 7))
            except Exception as exc:
                sig = exc_signature(exc)
                ctx.violation('acpc-raised', f'seat {seat}: {type(exc).__name__}: {exc}', sig=('C17', 'acpc-raised') + sig[:2])
                continue
            ctx.counters['acpc_message_lists_compared'] += 1
            ctx.counters['acpc_messages_compared'] += len(exp_msgs)
            if got_msgs != exp_msgs:
                k = next((i for i, (a, b) in enumerate(zip(got_msgs, exp_msgs)) if a != b), min(len(got_msgs), len(exp_msgs)))
                g = got_msgs[k] if k < len(got_msgs) else None
                e = exp_msgs[k] if k < len(exp_msgs) else None
                f = 'count' if g is None or e is None else ('direction' if g[0] != e[0] else
                                                           _first_field_diff(g[1], e[1], ('MATCHSTATE', 'position', 'hand', 'actions', 'cards', 'echo')))
                ctx.violation('acpc-messages', f'viewer seat {seat}, message {k} of {len(got_msgs)}/{len(exp_msgs)}: library {g!r}, reference {e!r}',
                              sig=('C17', 'acpc-messages', f, 'terminal' if terminal else 'partial'))
        # ---- parse back and replay (terminal hands)
        if terminal and any(e[0] == 'show_or_muck_hole_cards' and len(e) > 1 and e[1] is False for e in ctx.path):
            ctx.counters['hands_ended_by_an_explicit_muck_not_parsed_back'] += 1      # the protocol has no muck action
        elif terminal:
            line = P.pluribus_line(ops, n, 7, pay, nl)
            stack = st.starting_stacks[0]
            try:
                # the parser is handed a game in the default (tournament) mode, as in the documentation's example: it must
                # read the line as the cash-game protocol it is (free folds included)
                hs = list(H.from_acpc_protocol(self.parse_game, stack, line, error_status=True))
            except Exception as exc:
                sig = exc_signature(exc)
                ctx.violation('parse-back-raised', f'{line}: {type(exc).__name__}: {exc}', sig=('C17', 'parse-back-raised') + sig[:2])
                return
            if len(hs) != 1:
                ctx.violation('parse-back-count', f'{line}: {len(hs)} histories', sig=('C17', 'parse-back-count'))
                return
            h2 = hs[0]
            try:
                fin = list(h2)[-1]
            except Exception as exc:
                ctx.violation('parse-back-replay-raised', f'{line}: {type(exc).__name__}: {exc}', sig=('C17', 'parse-back-replay-raised'))
                return
            ctx.counters['lines_parsed_back_and_replayed'] += 1
            if bet_norm(fin.operations) != bet_norm(ops) or list(fin.stacks) != list(st.stacks) or fin.status:
                ctx.violation('parse-back-differs', f'{line}: played {bet_norm(ops)} stacks {st.stacks}; parsed history replays to '
                              f'{bet_norm(fin.operations)} stacks {fin.stacks}', sig=('C17', 'parse-back-differs'))
            elif nl:
                try:
                    again = h2.to_pluribus_protocol()
                except Exception as exc:
                    ctx.violation('parse-back-render-raised', f'{line}: {type(exc).__name__}: {exc}', sig=('C17', 'parse-back-render-raised'))
                    return
                if again != line:
                    ctx.violation('parse-back-line', f'{line}\nrendered again as\n{again}',
                                  sig=('C17', 'parse-back-line', _first_field_diff(again, line, ('STATE', 'hand', 'actions', 'cards', 'payoffs', 'players'))))


def _first_field_diff(a, b, names):
    fa, fb = a.rstrip('\r\n').split(':'), b.rstrip('\r\n').split(':')
    for i, nm in enumerate(names):
        x = fa[i] if i < len(fa) else None
        y = fb[i] if i < len(fb) else None
        if x != y:
            return nm
    return 'length'


def cfgs(tier):
    th = tier == 'thorough'
    out = []
    for code in ('NT', 'FT'):
        # (players, stack, raises, dev bound)
        grid = [(2, 6, 'all', None), (3, 5, 'all', None), (2, 12 if th else 9, 'all', 5 if th else 4), (3, 8, 'minmax', 4 if th else 3),
                (4, 8, 'minmax', 3 if th else 2), (5, 8, 'minmax', 2 if th else 1), (6, 8, 'minmax', 2 if th else 1)]
        if code == 'FT':
            grid = [(2, 9, 'all', None), (3, 7, 'all', 5 if th else 4), (2, 30, 'all', 6 if th else 5), (4, 9, 'all', 3 if th else 2), (6, 9, 'all', 2 if th else 1)]
        for n, stack, raises, k in grid:
            out.append(({'code': code, 'autos': 'ALL', 'n': n, 'stack': stack, 'raises': raises}, k, 'auto-showdown'))
        manual = [a for a in ('ANTE_POSTING', 'BET_COLLECTION', 'BLIND_OR_STRADDLE_POSTING', 'CARD_BURNING', 'HOLE_DEALING', 'BOARD_DEALING',
                              'RUNOUT_COUNT_SELECTION', 'HAND_KILLING', 'CHIPS_PUSHING', 'CHIPS_PULLING')]
        out.append(({'code': code, 'autos': manual, 'n': 2, 'stack': 6, 'raises': 'minmax', 'show': (None, True, False)}, 4 if th else 3, 'manual-showdown'))
        out.append(({'code': code, 'autos': manual, 'n': 3, 'stack': 6, 'raises': 'minmax', 'show': (None, True, False)}, 3 if th else 2, 'manual-showdown'))
        # folds that face no bet (legal in cash games, warned about): the protocol writes them as f like any other fold
        out.append(({'code': code, 'autos': 'ALL', 'n': 2, 'stack': 6, 'raises': 'minmax', 'fold_unfaced': True}, 4 if th else 3, 'unfaced-folds'))
        out.append(({'code': code, 'autos': 'ALL', 'n': 3, 'stack': 6, 'raises': 'minmax', 'fold_unfaced': True}, 3 if th else 2, 'unfaced-folds'))
        nodeal = [a for a in manual if a not in ('HOLE_DEALING', 'BOARD_DEALING')]
        out.append(({'code': code, 'autos': nodeal, 'n': 2, 'stack': 6, 'raises': 'minmax', 'compress': False, 'deal': 'default'}, 2, 'uncompressed-dealing'))
        out.append(({'code': code, 'autos': nodeal, 'n': 3 if th else 2, 'stack': 6, 'raises': 'minmax', 'compress': True, 'deal': 'rich'}, 2, 'card-by-card-dealing'))
        out.append(({'code': code, 'autos': nodeal, 'n': 2, 'stack': 6, 'raises': 'minmax', 'compress': False, 'deal': 'rich'}, 2, 'card-by-card-dealing-uncompressed'))
    return out


def jobs(tier, seed):
    from itertools import product
    out = []
    for cfg, k, kind in cfgs(tier):
        heavy = cfg['n'] >= 3 or cfg['stack'] >= 9
        if heavy and cfg['autos'] == 'ALL':
            # split the tree by the first two decisions (index into the menu of the node); empty slices cost nothing
            width = 10 if cfg['raises'] == 'all' else 4
            for pc in product(range(width), repeat=3 if cfg['n'] >= 3 else 2):
                out.append({'family': f'{cfg["code"]}-{kind}', 'cfg': cfg, 'dev_bound': k, 'prefix_choice': pc})
        else:
            out.append({'family': f'{cfg["code"]}-{kind}', 'cfg': cfg, 'dev_bound': k})
    out.sort(key=lambda j: (-(j['cfg']['n']), j.get('prefix_choice', (0, 0, 0))))
    if seed:
        r = seed % len(out)
        out = out[r:] + out[:r]
    return out


def run_job(job):
    from ..alphabet import legal_menu
    cfg = job['cfg']
    env.set_warnings('ignore')
    game = mk_game(cfg)
    n = cfg['n']
    o = mk_opts(raises=cfg['raises'], show=cfg.get('show', (None,)), runouts=(None,), deal=cfg.get('deal', 'default'),
                fold_unfaced=cfg.get('fold_unfaced', False))
    mon = Proto(cfg, game)
    pc = job.get('prefix_choice')
    menu = None
    if pc is not None:
        def menu(st, node):
            evs = legal_menu(st, o)
            if node.depth < len(pc):
                mon.skip = any(pc[node.depth:])      # a shared prefix node is judged by the slice with zeros from here on
                return evs[pc[node.depth]:pc[node.depth] + 1]
            mon.skip = False
            return evs
    stats, ctx = explore(cfg, monitors=[mon], menu=menu, menu_opts=o, dev_bound=job['dev_bound'], merge=False,
                         build=lambda c: game((cfg['stack'],) * n, n), sample_every=1)
    for v in ctx.violations:
        v['family'] = job['family']
    smp = [{'cfg': cfg, 'events': s} for s in ctx.samples[:1]]
    if mon.lines:
        smp.append({'pluribus_line': sorted(mon.lines, key=len)[-1]})
    return {'family': job['family'], 'stats': stats, 'violations': ctx.violations, 'counters': dict(ctx.counters),
            'validated': ctx.counters.get('acpc_message_lists_compared', 0) + ctx.counters.get('pluribus_lines_compared', 0)
            + ctx.counters.get('lines_parsed_back_and_replayed', 0),
            'samples': smp, 'merge': mon.lines, **({'dev_bound': job['dev_bound']} if job['dev_bound'] is not None else {})}


def finalize(merges, tier):
    allc = set()
    for m in merges:
        allc |= m
    return [], Counter({'distinct_pluribus_lines': len(allc)}), {'distinct': len(allc)}


def sanity(agg, counters, fam, tier):
    return [f'{k} == 0' for k in ('pluribus_lines_compared', 'acpc_messages_compared', 'lines_parsed_back_and_replayed')
            if not counters.get(k)]


def bounds(tier):
    return 'see families: NT/FT x players 2-6 x stacks 5-30 x deviation bounds (None = full depth); ' + \
        '; '.join(f'{c["code"]} n={c["n"]} stack={c["stack"]} raises={c["raises"]} k={k} {kind}' for c, k, kind in cfgs(tier))


def replay(doc):
    from ..alphabet import apply
    from pokerkit.notation import HandHistory as H
    env.set_warnings('ignore')
    cfg = doc['cfg']
    print('oracle:', doc.get('oracle'), '|', str(doc.get('detail'))[:800])
    game = mk_game(cfg)
    st = game((cfg['stack'],) * cfg['n'], cfg['n'])
    for ev in doc['events']:
        apply(st, tuple(ev))
    mon = Proto(cfg, game)

    class C:
        counters = Counter()
        path = ()
        out = []

        def violation(self, oracle, detail, sig=None, path=None):
            self.out.append((oracle, detail))
    c = C()
    mon.on_state(st, None, [], c)
    for o, d in c.out:
        print('reproduced:', o, '|', d[:600])
    return 1 if c.out else 0
