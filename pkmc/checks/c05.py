"""C05 - the hand made from hole and board cards is the best one the game allows.

Input-space model checking: every (hole, board) pair over structured sub-decks, for every hand
type and every admissible shape (0-7 hole cards, 0-5 board cards), is pushed through the real
``from_game`` / ``from_game_or_none`` (and, for the shapes a game can produce, through a real State
dealt those cards: ``get_hand`` / ``get_up_hand``) and compared with a brute-force maximum over
the combinations the game's composition rule allows, evaluated by the independent evaluator.
"""
from collections import Counter
from itertools import combinations

from .. import env
from ..refs import handeval as H

PROPERTY = 'C05'
LEVEL = 'model_checking'
RULE = ('for each hand type: every disjoint (hole, board) pair with |hole| in the type\'s admissible range and |board| <= 5 over '
        'each structured sub-deck (decks built to contain wheels, broadway, straight flushes, quads, full houses vs flushes, '
        'qualifying/non-qualifying lows, paired lows, rainbow/non-rainbow badugis) is enumerated; non-trivial and distinct = distinct '
        '(type, hole-count, board-count, reference best class or None) tuples')
ASSUMPTIONS = ['sub-decks of 9-13 cards, not the 52-card product; every branch of each composition rule occurs with every relative '
               'ordering of the candidate combinations inside those decks',
               'Greek hold\'em is defined for exactly two hole cards; other hole counts are not judged',
               'evaluator classes are those of refs/handeval.py, itself decided against the implementation for all hands by C04']

COMBO = ['StandardHighHand', 'StandardLowHand', 'ShortDeckHoldemHand', 'EightOrBetterLowHand', 'RegularLowHand']
OMAHA = ['OmahaHoldemHand', 'OmahaEightOrBetterLowHand']

DECKS = {
    'A': 'As Ks Qs Js Ts 9s Ah Kh Ad Ac Qh 9d 8s',          # broadway SF, quads, full houses, flush vs straight
    'B': 'As 2s 3s 4s 5s 2h 3h 6d 7c 2d 6s Ah 4d',          # wheel (SF), 2-6, trips, low cards
    'C': '7s 8s 9s Ts Js 7h 8h 9h Jd 2c 6s Th 2s',          # overlapping straights, flush vs straight
    'S1': 'As 6s 7s 8s 9s Ts 6h 7h 6d 6c Ah Ad 9h',         # short deck: A6789 straight (flush), quads, full house vs flush
    'S2': '9s Ts Js Qs Ks As Ah Kh Ad Kd 9h 9d Qh',         # short deck: flush vs full house
    'E1': 'As 2s 3h 4h 5d 6d 7c 8c 9s Kh 2d 8h 3s',         # lows, non-lows
    'E2': 'As Ah 2s 2h 3s 3h 8d 9d Kd 4c 5c Td 4s',         # paired low cards blocking lows
    'G': 'As 2h 3d 4c Ah 2s 3c Kd Ks 2d 4h Kc 3h',          # badugi: rainbow/suited/paired mixes
}
TYPE_DECKS = {
    'StandardHighHand': 'ABC', 'StandardLowHand': 'ABC', 'GreekHoldemHand': 'ABC', 'OmahaHoldemHand': 'ABC',
    'ShortDeckHoldemHand': ('S1', 'S2'), 'EightOrBetterLowHand': ('E1', 'E2', 'B'), 'OmahaEightOrBetterLowHand': ('E1', 'E2', 'B'),
    'RegularLowHand': ('B', 'E2', 'A'), 'BadugiHand': ('G',), 'StandardBadugiHand': ('G',),
}


def deck(name, size):
    return DECKS[name].split()[:size]


def _cls(name):
    import pokerkit.hands as PH
    return getattr(PH, name)


def shapes_for(t, tier):
    th = tier == 'thorough'
    if t in COMBO:
        return [(h, b) for h in range(0, 8) for b in range(0, 6) if h + b <= (10 if th else 9)]
    if t in OMAHA:
        return [(h, b) for h in range(0, 7 if th else 6) for b in range(0, 6)]
    if t == 'GreekHoldemHand':
        return [(2, b) for b in range(0, 6)]
    if 'Badugi' in t:
        return [(h, b) for h in range(0, 7 if th else 6) for b in range(0, 3 if th else 2)]
    raise KeyError(t)


def jobs(tier, seed):
    th = tier == 'thorough'
    out = []
    for t, dks in TYPE_DECKS.items():
        for dk in dks:
            size = (12 if th else 10) if 'Badugi' not in t else (13 if th else 11)
            if t in COMBO and th:
                size = 11
            for (h, b) in shapes_for(t, tier):
                if h + b > size:
                    continue
                # split big shapes by the first hole card
                from math import comb
                n = comb(size, h) * comb(size - h, b)
                parts = 1 if n < 4000 else min(size, 8)
                for k in range(parts):
                    out.append({'family': f'from_game[{t}]', 'kind': 'fg', 'type': t, 'deck': dk, 'size': size,
                                'h': h, 'b': b, 'part': (k, parts), 'n': n})
    out.append({'family': 'from_game[KuhnPokerHand]', 'kind': 'kuhn'})
    # real states dealt the same cards
    for game in ('holdem', 'omaha', 'omaha8', 'stud', 'stud8', 'razz', 'draw27', 'badugi', 'short', 'greek'):
        for k in range(8 if th else 4):
            out.append({'family': f'state-get_hand[{game}]', 'kind': 'state', 'game': game, 'part': (k, 8 if th else 4),
                        'size': 10 if th else 9})
    out.sort(key=lambda j: -j.get('n', 3000))
    if seed:
        r = seed % len(out)
        out = out[r:] + out[:r]
    return out


class Judge:
    def __init__(self):
        from pokerkit.utilities import Card
        self.Card = Card
        self.objs = {}
        self.viol = []
        self.c = Counter()
        self.evals = 0
        self.classes = set()

    def o(self, texts):
        r = []
        for t in texts:
            c = self.objs.get(t)
            if c is None:
                c = self.objs[t] = next(self.Card.parse(t))
            r.append(c)
        return tuple(r)

    def v(self, oracle, t, hole, board, detail, shape=''):
        if len(self.viol) < 40:
            self.viol.append({'oracle': oracle, 'detail': f'{t} hole={"".join(hole)} board={"".join(board)}: {detail}',
                              'cfg': {'type': t, 'hole': list(hole), 'board': list(board)}, 'events': [],
                              'sig': ('C05', oracle, t, shape)})

    def legal(self, t, hole, board, cards):
        cs = set(cards)
        if len(cs) != len(cards) or not cs <= set(hole) | set(board):
            return False
        nh = len(cs & set(hole))
        nb = len(cs & set(board))
        if t in OMAHA:
            return nh == 2 and nb == 3
        if t == 'GreekHoldemHand':
            return nh == 2 and nb == 3 and len(hole) == 2
        return True     # size / validity are decided by the strength comparison

    def one(self, t, T, hole, board):
        self.evals += 1
        exp = H.best(t, hole, board)
        ho, bo = self.o(hole), self.o(board)
        try:
            got = T.from_game_or_none(ho, bo)
        except Exception as exc:
            self.v('from_game_or_none-raised', t, hole, board, f'{type(exc).__name__}: {exc}', type(exc).__name__)
            return None
        try:
            got2 = T.from_game(ho, bo)
        except ValueError:
            got2 = None
        except Exception as exc:
            self.v('from_game-raised', t, hole, board, f'{type(exc).__name__}: {exc}', type(exc).__name__)
            return None
        if (got is None) != (got2 is None) or (got is not None and not (got == got2)):
            self.v('from_game-vs-or_none', t, hole, board, f'from_game gave {got2!r}, from_game_or_none {got!r}')
        # the order in which the cards were dealt must not matter
        if (len(hole) > 1 or len(board) > 1) and (t not in COMBO or len(hole) + len(board) <= 7):
            try:
                got3 = T.from_game_or_none(ho[::-1], bo[::-1])
            except Exception as exc:
                got3 = exc
            self.c['reversed_deal_orders_compared'] += 1
            if isinstance(got3, Exception) or (got is None) != (got3 is None) or (got is not None and not (got == got3)):
                self.v('deal-order-dependence', t, hole, board, f'cards given in reverse order evaluate to {got3!r}, in this order to {got!r}')
        self.classes.add((t, len(hole), len(board), None if exp is None else repr(exp[0])))
        if exp is None:
            self.c['no_hand_expected'] += 1
            if got is not None:
                self.v('hand-reported-but-none-legal', t, hole, board, f'no legal combination forms a hand, got {got!r}')
            return got
        self.c['hand_expected'] += 1
        if got is None:
            self.v('no-hand-reported', t, hole, board, f'best legal hand is {"".join(exp[1])}, none reported')
            return got
        cards = tuple(repr(c) for c in got.cards)
        s = H.strength(t, cards)
        if s is None or not self.legal(t, hole, board, cards):
            self.v('illegal-combination', t, hole, board, f'reported hand {"".join(cards)} is not a legal combination for this game')
        elif s != exp[0]:
            rel = 'weaker' if s < exp[0] else 'stronger'
            self.v('not-the-best', t, hole, board,
                   f'reported {"".join(cards)} is {rel} than the best legal hand {"".join(exp[1])}', rel)
        return got


def parts_iter(items, part):
    k, m = part
    for idx, x in enumerate(items):
        if idx % m == k:
            yield x


def run_fg(job, J):
    t = job['type']
    T = _cls(t)
    D = deck(job['deck'], job['size'])
    h, b = job['h'], job['b']
    sample = None
    for hole in parts_iter(combinations(D, h), job['part']):
        rest = [c for c in D if c not in hole]
        for board in combinations(rest, b):
            J.one(t, T, hole, board)
            if sample is None and h and b:
                e = H.best(t, hole, board)
                sample = {'type': t, 'hole': ''.join(hole), 'board': ''.join(board),
                          'reference_best': None if e is None else ''.join(e[1])}
    return sample


def run_kuhn(job, J):
    T = _cls('KuhnPokerHand')
    D = ['Js', 'Qs', 'Ks', 'Jh', 'Qh', 'Kh']
    for h in (0, 1, 2):
        for b in (0, 1, 2):
            for hole in combinations(D, h):
                for board in combinations([c for c in D if c not in hole], b):
                    J.one('KuhnPokerHand', T, hole, board)
    return {'type': 'KuhnPokerHand', 'hole': 'Js', 'board': 'Ks', 'reference_best': 'Ks'}


# ---------------------------------------------------------------- real states
GAMES = {
    # name: (hand types, hole statuses (True = up), board count, deck letters)
    'holdem': (['StandardHighHand'], (False, False), 5, 'ABC'),
    'omaha': (['OmahaHoldemHand'], (False,) * 4, 5, 'AC'),
    'omaha8': (['OmahaHoldemHand', 'OmahaEightOrBetterLowHand'], (False,) * 4, 5, ('E1', 'B')),
    'stud': (['StandardHighHand'], (False, False, True, True, True, True, False), 0, 'AC'),
    'stud8': (['StandardHighHand', 'EightOrBetterLowHand'], (False, False, True, True, True, True, False), 0, ('E1', 'B')),
    'razz': (['RegularLowHand'], (False, False, True, True, True, True, False), 0, ('B', 'E2')),
    'draw27': (['StandardLowHand'], (False,) * 5, 0, 'BC'),
    'badugi': (['BadugiHand'], (False,) * 4, 0, ('G',)),
    'short': (['ShortDeckHoldemHand'], (False, False), 5, ('S1', 'S2')),
    'greek': (['GreekHoldemHand'], (False, False), 5, 'AB'),
}


def run_state(job, J):
    from .. import configs as C
    S = env.S
    types, statuses, nb, dks = GAMES[job['game']]
    h = len(statuses)
    sample = None
    for dk in dks:
        D = deck(dk, job['size'] if h + nb <= 7 else job['size'])
        others = [c for c in H_DECK52 if c not in D]
        for hole in parts_iter(combinations(D, h), job['part']):
            rest = [c for c in D if c not in hole]
            for board in combinations(rest, nb):
                st = S.State((), tuple(J.o(H_DECK52)), tuple(_cls(t) for t in types),
                             (S.Street(False, statuses, nb, False, S.Opening.POSITION, 2, None),),
                             S.BettingStructure.NO_LIMIT, True, 0, (1, 2), 0, (20, 20), 2)
                st.post_blind_or_straddle()
                st.post_blind_or_straddle()
                st.deal_hole(''.join(hole), 0)
                st.deal_hole(''.join(others[:h]), 1)
                if nb:
                    st.deal_board(''.join(board))
                J.c['states_built'] += 1
                for ti, t in enumerate(types):
                    T = _cls(t)
                    exp = J.one(t, T, hole, board)
                    got = st.get_hand(0, 0, ti)
                    if (got is None) != (exp is None) or (got is not None and not (got == exp)):
                        J.v('state.get_hand', t, hole, board, f'State.get_hand gave {got!r}, from_game_or_none {exp!r}')
                    ups = tuple(c for c, up in zip(hole, statuses) if up)
                    expu = H.best(t, ups, board)
                    gotu = st.get_up_hand(0, 0, ti)
                    J.c['up_hands_compared'] += 1
                    if (gotu is None) != (expu is None) or (gotu is not None and
                                                           H.strength(t, tuple(repr(c) for c in gotu.cards)) != expu[0]):
                        J.v('state.get_up_hand', t, hole, board, f'State.get_up_hand gave {gotu!r}, best of the up cards '
                            f'{"".join(ups)} + board is {None if expu is None else "".join(expu[1])}')
                if sample is None:
                    sample = {'game': job['game'], 'hole': ''.join(hole), 'board': ''.join(board),
                              'get_hand': [repr(st.get_hand(0, 0, i)) for i in range(len(types))]}
    return sample


H_DECK52 = [r + s for r in '23456789TJQKA' for s in 'cdhs']


def run_job(job):
    env.set_warnings('ignore')
    J = Judge()
    if job['kind'] == 'fg':
        sample = run_fg(job, J)
    elif job['kind'] == 'kuhn':
        sample = run_kuhn(job, J)
    else:
        sample = run_state(job, J)
    return {'family': job['family'], 'stats': {}, 'violations': J.viol[:20], 'counters': dict(J.c),
            'evaluations': J.evals, 'validated': J.evals, 'samples': [sample] if sample else [],
            'merge': J.classes}


def finalize(merges, tier):
    allc = set()
    for m in merges:
        allc |= m
    c = Counter()
    for t in TYPE_DECKS:
        c[f'outcome_classes[{t}]'] = sum(1 for x in allc if x[0] == t)
    c['none_outcomes'] = sum(1 for x in allc if x[3] is None)
    return [], c, {'distinct': len(allc)}


def sanity(agg, counters, fam, tier):
    msgs = [f'{k} == 0' for k in ('no_hand_expected', 'hand_expected', 'states_built', 'up_hands_compared', 'none_outcomes')
            if not counters.get(k)]
    for t in TYPE_DECKS:
        if counters.get(f'outcome_classes[{t}]', 0) < 20:
            msgs.append(f'few outcome classes for {t}')
    return msgs


def bounds(tier):
    th = tier == 'thorough'
    return (f'sub-decks of {12 if th else 10} cards (combination types {11 if th else 10}, badugi {13 if th else 11}); combination types: '
            f'|hole| 0-7, |board| 0-5, total <= {10 if th else 9}; Omaha types |hole| 0-{6 if th else 5}; Greek |hole| = 2; badugi '
            f'|hole| 0-{6 if th else 5}, |board| 0-{2 if th else 1}; real states: 10 game shapes x all deals of the first player over '
            f'{10 if th else 9}-card sub-decks')


def replay(doc):
    env.set_warnings('ignore')
    cfg = doc['cfg']
    print('oracle:', doc.get('oracle'), '|', doc.get('detail'))
    J = Judge()
    t = cfg['type']
    J.one(t, _cls(t), tuple(cfg['hole']), tuple(cfg['board']))
    for v in J.viol:
        print('reproduced:', v['oracle'], v['detail'])
    if doc.get('oracle', '').startswith('state.'):
        print('(state-level oracle: re-run ./check C05)')
        return 1
    return 1 if J.viol else 0
