"""C13 - the right player opens each betting round."""
from itertools import product, permutations

from .. import sx, env, configs as C
from ..refs import opener as O
from ..refs.betting import BettingMonitor, Round

PROPERTY = 'C13'
LEVEL = 'model_checking'
RULE = ('button games: every blind/straddle/post layout over {0,1,2,4,-2}^n x all-in patterns, explored with the betting '
        'automaton whose opener comes from an independent layout-based reference (actor compared at every state of every '
        'round); stud: every ordered assignment of door cards (full 52-card deck for 2-3 players) and of 2-4 up-cards per '
        'player over structured sub-decks is dealt explicitly on the real State and the first actor / bring-in poster is '
        'compared with the reference')
ASSUMPTIONS = ['layouts whose largest blind is not the last positive entry are undetermined (counted)',
               'stud cases deal explicit cards (warnings ignored); hole (down) cards are unknown']


class ButtonOpenerMonitor(BettingMonitor):
    """BettingMonitor with the C13 designee; judges only the actor."""

    def _new_round(self, st):
        r = super()._new_round(st)
        d = O.button_designee(st.player_count, st.blinds_or_straddles, st.street_index == 0)
        r.opener = 0 if d == 'undet' else d
        return r

    def on_state(self, st, r, menu, ctx):
        if r is not None and r.street == -99:       # diverged after a reported opener mismatch
            return
        ref_actor = None if (r is None or r.over) else r.actor
        ctx.counters['actors_compared'] += 1
        if r is not None and not r.level_at_last_action and not r.over:
            ctx.counters['round_openings_compared'] += 1
            if st.stacks[r.opener] == 0 or not st.statuses[r.opener]:
                ctx.counters['designee_could_not_act'] += 1
        if st.actor_index != ref_actor:
            first = r is not None and not r.level_at_last_action
            layout = st.blinds_or_straddles
            n = st.player_count
            shape = 'plain'
            if first and st.street_index == 0:
                pos = [k for k, b in enumerate(layout) if b > 0]
                last = max(pos)
                seat = (1 - last) if n == 2 else last
                if n == 2 and not (0 < layout[0] < layout[1]):
                    shape = 'heads-up-layout-not-ascending'
                elif st.bets[seat] < layout[last]:
                    shape = 'last-blind-poster-short'
            ctx.violation('opener' if first else 'actor',
                          f'engine actor {st.actor_index}, reference {ref_actor}; layout {layout} '
                          f'stacks {st.stacks} bets {st.bets} live {st.statuses} street {st.street_index}',
                          sig=(self.prop, 'opener' if first else 'actor', shape))
            if r is not None:
                r.street = -99

    def on_edge(self, pre, ms, ev, post, rec, ctx):
        if ms is not None and ms.street == -99:
            self._starts = []
            return ms
        return super().on_edge(pre, ms, ev, post, rec, ctx)


def st2():
    return [(False, (False,), 0, False, 'POSITION', 2, None), (False, (), 1, False, 'POSITION', 2, None)]


def jobs(tier, seed):
    th = tier == 'thorough'
    out = []
    vals = (0, 1, 2, 4, -2)
    for n in (2, 3, 4) + ((5,) if th else ()):
        for layout in product(vals, repeat=n):
            if not any(v > 0 for v in layout):
                continue
            if O.button_designee(n, layout, True) == 'undet':
                continue
            pats = list(product((0, 1), repeat=n))
            if n >= 4 and not th:
                pats = [p for p in pats if sum(p) <= 2]
            out.append({'family': f'button-{n}', 'kind': 'button', 'n': n, 'layout': layout, 'pats': pats})
    # chip types other than int, blinds below one unit (quarter chips, thirds): the opener does not depend on the chip type
    for chips in ('decimal', 'fraction', 'float'):
        for n in (2, 3, 4):
            for layout in [(1, 2), (2, 2), (1, 2, 4), (1, 2, 0, 4), (1, 2, -2), (0, 2)]:
                if len(layout) > n or O.button_designee(n, layout + (0,) * (n - len(layout)), True) == 'undet':
                    continue
                lay = layout + (0,) * (n - len(layout))
                out.append({'family': f'button-{chips}-chips', 'kind': 'button', 'n': n, 'layout': lay, 'chips': chips,
                            'pats': [p for p in product((0, 1), repeat=n) if sum(p) <= 1]})
    # stud door cards
    deck = [r + s for r in O.STD for s in O.SUITS]
    for razz in (False, True):
        perms2 = list(permutations(deck, 2))
        for k in range(0, len(perms2), 700):
            out.append({'family': 'stud-door-2p', 'kind': 'door', 'razz': razz, 'n': 2, 'cases': perms2[k:k + 700]})
        sub3 = deck if th else [c for c in deck if c[0] in '2378QKA']
        perms3 = list(permutations(sub3, 3))
        for k in range(0, len(perms3), 1500):
            out.append({'family': 'stud-door-3p', 'kind': 'door', 'razz': razz, 'n': 3, 'cases': perms3[k:k + 1500]})
        sub4 = [c for c in deck if c[0] in ('2AKQ' if th else '2AK')]
        perms4 = list(permutations(sub4, 4))
        for k in range(0, len(perms4), 1500):
            out.append({'family': 'stud-door-4p', 'kind': 'door', 'razz': razz, 'n': 4, 'cases': perms4[k:k + 1500]})
        # short stacks: designated opener all-in from the ante
        for stacks in [(1, 9, 9), (9, 1, 9), (9, 9, 1), (1, 1, 9), (1, 9)]:
            subd = [c for c in deck if c[0] in '2AK' and c[1] in 'cs']
            out.append({'family': 'stud-door-all-in-designee', 'kind': 'door', 'razz': razz, 'n': len(stacks),
                        'stacks': stacks, 'cases': list(permutations(subd, len(stacks)))})
        # custom stud-like game whose opening street shows two cards per player: the single lowest / highest card showing
        # anywhere on the table decides
        for n, ranks, suits in [(2, 'A23K', 'cs'), (3, 'A2K', 'cs')] + ([(2, 'A23QK', 'cdhs'), (3, 'A23K', 'cs')] if th else []):
            subd = [c for c in deck if c[0] in ranks and c[1] in suits]
            cases = list(permutations(subd, 2 * n))
            for k in range(0, len(cases), 1500):
                out.append({'family': f'two-door-cards-{n}p', 'kind': 'door', 'razz': razz, 'n': n, 'ndoor': 2,
                            'cases': cases[k:k + 1500]})
        # later streets with the best board all-in since third street
        for stacks in [(2, 9, 9), (9, 2, 9), (9, 9, 2)]:
            subd = [c for c in deck if c[0] in '2KA' and c[1] in 'cs']
            out.append({'family': 'stud-exposed-all-in-designee', 'kind': 'exposed', 'razz': razz, 'n': 3, 'nup': 2,
                        'stacks': stacks, 'cases': list(permutations(subd, 6))})
        # later streets: k up-cards per player
        for nup, ranks, n in [(2, '2KA', 2), (2, '2A', 3), (3, '2A', 2), (4, '2A', 2)] + \
                ([(2, '2QKA', 2), (3, '2KA', 2), (2, '2KA', 3)] if th else []):
            subd = [c for c in deck if c[0] in ranks]
            cases = list(permutations(subd, nup * n))
            step = 1
            if len(cases) > 60000 and not th:
                step = len(cases) // 60000 + 1
            cases = cases[::step]
            for k in range(0, len(cases), 1500):
                out.append({'family': f'stud-exposed-{nup}up-{n}p', 'kind': 'exposed', 'razz': razz, 'n': n, 'nup': nup,
                            'cases': cases[k:k + 1500], 'stride': step})
    return out


def run_button(job):
    n, layout = job['n'], job['layout']
    agg = None
    viol = []
    from collections import Counter
    counters = Counter()
    stats = {'states': 0, 'transitions': 0, 'terminals': 0, 'max_depth': 0, 'capped': False, 'pruned_errors': 0, 'deadlocks': 0}
    sample = None
    for pat in job['pats']:
        stacks = tuple(1 if p else 9 for p in pat)
        if all(s == 1 for s in stacks):
            continue
        cfg = C.custom(stacks, st2(), deck='KUHN9', hand_types=('KuhnAny',), antes=0, blinds=tuple(layout), **({'chips': job['chips']} if job.get('chips') else {}))
        j = {'family': job['family'], 'cfg': cfg, 'dev_bound': 1, 'opts': {'raises': 'min'}}
        r, ctx = sx.run(j, [ButtonOpenerMonitor('C13')], validated='actors_compared')
        for k in stats:
            if isinstance(stats[k], int) and not isinstance(stats[k], bool):
                stats[k] = stats[k] + r['stats'].get(k, 0) if k != 'max_depth' else max(stats[k], r['stats'].get(k, 0))
        viol += r['violations']
        counters.update(r['counters'])
        sample = sample or (r['samples'][0] if r['samples'] else None)
    return {'family': job['family'], 'stats': stats, 'violations': viol[:20], 'counters': dict(counters),
            'validated': counters.get('actors_compared', 0), 'samples': [sample] if sample else []}


def run_stud(job):
    from collections import Counter
    env.set_warnings('ignore')
    razz = job['razz']
    n = job['n']
    game = 'FixedLimitRazz' if razz else 'FixedLimitSevenCardStud'
    stacks = job.get('stacks', (50,) * n)
    autos = ['ANTE_POSTING', 'BET_COLLECTION', 'CARD_BURNING']
    cfg = C.stud(stacks, game=game, autos=autos)
    nd = job.get('ndoor', 1)
    if nd > 1:
        cfg = C.custom(stacks, [(False, (False,) + (True,) * nd, 0, False, 'HIGH_CARD' if razz else 'LOW_CARD', 2, None),
                                (True, (True,), 0, False, 'LOW_HAND' if razz else 'HIGH_HAND', 2, None)],
                       deck='STANDARD', hand_types=('StandardHighHand',), structure='FL', antes=1, bring_in=1, autos=autos)
    viol = []
    counters = Counter()
    states = trans = 0
    sample = None
    for case in job['cases']:
        st = C.build(cfg)
        states += 1
        if job['kind'] == 'door':
            doors = [list(case[i * nd:(i + 1) * nd]) for i in range(n)]
            for i in range(n):
                st.deal_hole(('????' if nd == 1 else '??') + ''.join(doors[i]), i)
                trans += 1
            live = [True] * n
            des = O.door_opener(doors, razz)
            exp = O.first_able(n, des, live, st.stacks, st.bets)
            counters['door_cases'] += 1
            if st.stacks[des] == 0:
                counters['designee_all_in'] += 1
            if nd > 1:
                counters['two_door_cases'] += 1
                if any('A' in (d[0][0], d[1][0]) for d in doors):
                    counters['two_door_cases_with_an_ace_showing'] += 1
            got = st.actor_index
            desc = f'door cards {case} stacks {st.stacks}'
            if got != exp:
                viol.append({'oracle': 'stud-door-opener', 'detail': f'{desc}: engine actor {got}, reference {exp} (designee {des})',
                             'cfg': cfg, 'events': [['deal_hole', ('????' if nd == 1 else '??') + ''.join(doors[i]), i] for i in range(n)],
                             'sig': ('C13', 'stud-door-opener', 'razz' if razz else 'stud')})
            elif got is not None:
                rec = st.post_bring_in()
                trans += 1
                if rec.player_index != exp:
                    viol.append({'oracle': 'bring-in-poster', 'detail': f'{desc}: {rec}, reference {exp}', 'cfg': cfg, 'events': [],
                                 'sig': ('C13', 'bring-in-poster')})
        else:
            nup = job['nup']
            ups = [list(case[i * nup:(i + 1) * nup]) for i in range(n)]
            evs = []
            for i in range(n):
                st.deal_hole('????' + ups[i][0], i)
                evs.append(['deal_hole', '????' + ups[i][0], i])
            ok = True
            for k in range(1, nup):
                # finish the betting round with the cheapest actions
                guard = 0
                while st.actor_index is not None and guard < 50:
                    guard += 1
                    if st.can_post_bring_in():
                        st.post_bring_in()
                        evs.append(['post_bring_in'])
                    else:
                        st.check_or_call()
                        evs.append(['check_or_call'])
                    trans += 1
                for i in range(n):
                    if not st.can_deal_hole(ups[i][k], i):
                        ok = False
                        break
                    st.deal_hole(ups[i][k], i)
                    evs.append(['deal_hole', ups[i][k], i])
                    trans += 1
                if not ok:
                    break
            if not ok:
                counters['exposed_cases_not_dealable'] += 1
                continue
            counters['exposed_cases'] += 1
            des = O.exposed_opener(ups, razz)
            if st.stacks[des] == 0 and sum(1 for x in st.stacks if x) >= 2:
                counters['exposed_designee_all_in_with_betting_left'] += 1
            exp = O.first_able(n, des, [True] * n, st.stacks, st.bets)
            strengths = [O.exposed_strength(u, razz) for u in ups]
            if len({str(s) for s in strengths}) < n:
                counters['exposed_ties'] += 1
            got = st.actor_index
            if got != exp:
                viol.append({'oracle': 'stud-exposed-opener', 'detail': f'up-cards {ups}: engine actor {got}, reference {exp}',
                             'cfg': cfg, 'events': evs, 'sig': ('C13', 'stud-exposed-opener', 'razz' if razz else 'stud', str(nup))})
        if sample is None:
            sample = {'cfg': C.describe(cfg), 'case': list(case), 'actor': st.actor_index}
        if len(viol) > 20:
            break
    return {'family': job['family'], 'stats': {'states': states, 'transitions': trans, 'terminals': 0, 'max_depth': 0,
                                               'capped': False, 'pruned_errors': 0, 'deadlocks': 0},
            'violations': viol[:20], 'counters': dict(counters),
            'validated': counters.get('door_cases', 0) + counters.get('exposed_cases', 0), 'samples': [sample] if sample else []}


def run_job(job):
    if job['kind'] == 'button':
        return run_button(job)
    return run_stud(job)


def sanity(agg, counters, fam, tier):
    return [f'{k} == 0' for k in ('door_cases', 'exposed_cases', 'exposed_ties', 'designee_all_in', 'designee_could_not_act',
                                  'round_openings_compared', 'two_door_cases_with_an_ace_showing',
                                  'exposed_designee_all_in_with_betting_left') if not counters.get(k)]


def bounds(tier):
    return ('button layouts over {0,1,2,4,-2}^n, n=2..4 (thorough 5) x short/deep stack patterns, k<=1 deviations, 2 streets; '
            'stud/razz door cards: all 2652 two-player assignments, 3 players on 28 cards (thorough: 52), 4 players on 12 '
            '(thorough 16); exposed hands 2-4 up-cards over 2-3 rank sub-decks')
