"""Replay a violation file on a fresh state, without the explorer."""
import warnings

from . import env, configs
from .alphabet import apply


def run(mod, doc):
    f = getattr(mod, 'replay', None)
    if f:
        return f(doc)
    return generic(doc)


def generic(doc, quiet=False):
    cfg = doc['cfg']
    env.set_warnings(doc.get('warn', 'ignore'))
    print('config:', configs.describe(cfg) if isinstance(cfg, dict) and 'game' in cfg else cfg)
    print('oracle:', doc.get('oracle'), '|', str(doc.get('detail'))[:400])
    try:
        st = configs.build(cfg)
    except Exception as exc:
        print('constructor raised', type(exc).__name__, exc)
        return 1
    for ev in doc['events']:
        try:
            rec = apply(st, tuple(ev))
            print('  ', ev, '->', rec)
        except Exception as exc:
            print('  ', ev, 'RAISED', type(exc).__name__, exc)
            return 1
    print('final: status', st.status, 'stacks', st.stacks, 'bets', st.bets, 'payoffs', st.payoffs)
    return 0
