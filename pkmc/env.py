"""Binding to the pokerkit working tree under test, and the seams the harness owns.

Nothing here edits pokerkit's source: randomness is owned by assigning module
globals, observation wraps ``State._update`` at run time.
"""
import os
import sys
import random
import warnings

REPO = os.path.realpath(os.environ.get('PKMC_REPO', '/repo'))
SEED = int(os.environ.get('VERIF_SEED', '0') or 0)

if sys.path[0] != REPO:
    sys.path.insert(0, REPO)

import pokerkit  # noqa: E402

if not os.path.realpath(pokerkit.__file__).startswith(REPO + os.sep):
    sys.stderr.write(
        f'pkmc: pokerkit imported from {pokerkit.__file__}, not from {REPO}\n')
    sys.exit(2)

import pokerkit.state as S  # noqa: E402
import pokerkit.utilities as U  # noqa: E402
import pokerkit.analysis as AN  # noqa: E402

random.seed(SEED)

# --------------------------------------------------------------------------
# deck seam
# --------------------------------------------------------------------------
#: cards (2-char texts) that must come first, in this order; the rest of the
#: deck follows in its enumeration order rotated by ``SEED``.
DECK_PLAN = None
SHUFFLE_CALLS = [0, 0]


def _state_shuffle(x):
    SHUFFLE_CALLS[0] += 1
    items = list(x)
    head = []
    if DECK_PLAN:
        by = {repr(c): c for c in items}
        for t in DECK_PLAN:
            c = by.get(t)
            if c is not None and c not in head:
                head.append(c)
    hs = set(map(id, head))
    tail = [c for c in items if id(c) not in hs]
    if tail and SEED:
        r = (SEED * 7) % len(tail)
        tail = tail[r:] + tail[:r]
    new = head + tail
    if isinstance(x, list):
        x[:] = new
    else:
        x.clear()
        x.extend(new)


def _util_shuffle(x):
    SHUFFLE_CALLS[1] += 1
    if len(x) > 1 and SEED:
        r = SEED % len(x)
        x[:] = x[r:] + x[:r]


S.shuffle = _state_shuffle
U.shuffle = _util_shuffle


def set_deck_plan(plan):
    global DECK_PLAN
    DECK_PLAN = list(plan) if plan else None


# --------------------------------------------------------------------------
# observation seam: every logged operation, including automation cascades
# --------------------------------------------------------------------------
_OBSERVERS = []
_orig_update = S.State._update


def _wrapped_update(self, operation=None):
    _orig_update(self, operation)
    if _OBSERVERS:
        for ob in _OBSERVERS:
            ob(self, operation)


S.State._update = _wrapped_update


class observe:
    """Context manager registering a callback(state, operation)."""

    def __init__(self, cb):
        self.cb = cb

    def __enter__(self):
        _OBSERVERS.append(self.cb)
        return self

    def __exit__(self, *a):
        _OBSERVERS.remove(self.cb)


def set_warnings(mode):
    warnings.resetwarnings()
    warnings.simplefilter(mode)


def repo_head():
    import subprocess
    try:
        h = subprocess.run(['git', '-C', REPO, 'rev-parse', '--short', 'HEAD'],
                           capture_output=True, text=True).stdout.strip()
        d = subprocess.run(['git', '-C', REPO, 'status', '--porcelain',
                            '--', 'pokerkit'],
                           capture_output=True, text=True).stdout.strip()
        return h + ('+dirty' if d else '')
    except Exception:
        return 'unknown'
