"""Canonical form of a State, fast clone, snapshots and diffs.

Key = every dataclass field of State that is not a constructor argument
(constructor arguments are constant within one configuration), frozen
recursively, minus ``operations`` (only ever appended, never read back by
state.py - asserted by ``scan_operations_use``).  Nothing else is abstracted.
"""
import ast
import copy
import os
from collections import deque
from dataclasses import fields

from . import env

S = env.S
Card = env.pokerkit.Card
Pot = S.Pot

_ALL_FIELDS = [f.name for f in fields(S.State)]
_INIT_FIELDS = [f.name for f in fields(S.State) if f.init]
RUN_FIELDS = [f.name for f in fields(S.State) if not f.init]
KEY_FIELDS = [n for n in RUN_FIELDS if n != 'operations']
LOG_IN_KEY = False  # set by scan_operations_use when the log is read back


def freeze(v):
    t = type(v)
    if t is list or t is tuple or t is deque:
        return tuple([freeze(x) for x in v])
    if t is int or t is bool or v is None or t is str:
        return v
    if isinstance(v, Card):
        return v.rank.value + v.suit.value
    if t is set or t is frozenset:
        return ('set',) + tuple(sorted(v))
    if t is Pot:
        return ('pot', v.raked_amount, v.unraked_amount, v.player_indices)
    if t is dict:
        return ('dict',) + tuple(sorted((freeze(k), freeze(x))
                                        for k, x in v.items()))
    return v


def key(st):
    k = tuple([freeze(getattr(st, n)) for n in KEY_FIELDS])
    if LOG_IN_KEY:
        k += (len(st.operations),)
    return k


def snapshot(st):
    """Full observable snapshot incl. the log (used for 'nothing changed')."""
    return tuple([freeze(getattr(st, n)) if n != 'operations' else tuple(st.operations)
                  for n in RUN_FIELDS])


def diff(a, b):
    """Names of run-time fields on which two states differ."""
    out = []
    for n in RUN_FIELDS:
        x, y = getattr(a, n), getattr(b, n)
        if n == 'operations':
            if list(x) != list(y):
                out.append(n)
        elif freeze(x) != freeze(y):
            out.append(n)
    return out


def _clone_val(v):
    t = type(v)
    if t is list:
        return [_clone_val(x) for x in v]
    if t is deque:
        return deque([_clone_val(x) for x in v])
    if t is set:
        return set(v)
    if t is Pot:
        return Pot(v.raked_amount, v.unraked_amount, v.player_indices)
    if t is dict:
        return {k: _clone_val(x) for k, x in v.items()}
    return v


def clone(st):
    """Field-wise copy, equivalent to deepcopy for State (self-tested)."""
    new = object.__new__(type(st))
    nd = new.__dict__
    for n, v in st.__dict__.items():
        nd[n] = _clone_val(v)
    return new


deepclone = copy.deepcopy


def scan_operations_use():
    """AST scan: state.py must use ``self.operations`` only to append."""
    global LOG_IN_KEY
    path = os.path.join(env.REPO, 'pokerkit', 'state.py')
    tree = ast.parse(open(path).read())
    uses = []
    for node in ast.walk(tree):
        if (isinstance(node, ast.Attribute) and node.attr == 'operations'
                and isinstance(node.value, ast.Name)
                and node.value.id == 'self'):
            uses.append(node)
    appends = 0
    for node in ast.walk(tree):
        if (isinstance(node, ast.Call)
                and isinstance(node.func, ast.Attribute)
                and node.func.attr == 'append'
                and isinstance(node.func.value, ast.Attribute)
                and node.func.value.attr == 'operations'):
            appends += 1
    LOG_IN_KEY = not (len(uses) == appends)
    return len(uses), appends
