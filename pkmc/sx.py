"""Glue for state-explorer checks: one job = one configuration explored."""
from . import env, configs
from .alphabet import opts as mk_opts
from .explore import explore


def run(job, monitors, validated='transitions', **kw):
    env.set_warnings(job.get('warn', 'ignore'))
    o = mk_opts(**job.get('opts', {}))
    stats, ctx = explore(job['cfg'], monitors=monitors, menu_opts=o,
                         dev_bound=job.get('dev_bound'),
                         state_cap=job.get('state_cap'),
                         time_cap=job.get('time_cap'), job=job,
                         sample_every=1, **kw)
    if not stats.get('built', True) and 'on_build_error' not in kw:
        # a configuration that cannot be constructed explores nothing: that is a harness fault, not a silent pass
        raise RuntimeError(f'configuration did not build: {stats.get("build_error")} :: {configs.describe(job["cfg"])}')
    if ctx.counters.get('unhandled_menu_errors'):
        raise RuntimeError(f'an availability query raised while computing the menu and no monitor judges it: {ctx.menu_error}')
    for v in ctx.violations:
        v['warn'] = job.get('warn', 'ignore')
        v['family'] = job.get('family')
    r = {'family': job.get('family', '?'), 'label': configs.describe(job['cfg']),
         'stats': stats, 'violations': ctx.violations,
         'counters': dict(ctx.counters),
         'errors': {'|'.join(k): n for k, n in ctx.errors.items()},
         'error_examples': {'|'.join(k): v for k, v in ctx.error_examples.items()},
         'outcomes': len(ctx.outcomes),
         'samples': [{'cfg': configs.describe(job['cfg']), 'events': s} for s in ctx.samples[:1]]}
    if validated == 'transitions':
        r['validated'] = stats['transitions']
    elif validated == 'updates':
        r['validated'] = ctx.counters.get('updates_checked', 0)
    else:
        r['validated'] = ctx.counters.get(validated, 0)
    if job.get('dev_bound') is not None:
        r['dev_bound'] = job['dev_bound']
    return r, ctx
