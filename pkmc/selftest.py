"""./check selftest - the machinery itself is sound on this tree (exit 2 otherwise)."""
import copy
import sys
import time

from . import env, canon, configs as C
from .alphabet import legal_menu, apply, opts
from .explore import explore


def digest(cfg, o):
    import hashlib
    keys = []

    class Rec:
        def on_state(self, st, ms, menu, ctx):
            keys.append(repr(canon.key(st)))
    stats, ctx = explore(cfg, monitors=[Rec()], menu_opts=o)
    return hashlib.md5('\n'.join(keys).encode()).hexdigest(), stats


def main():
    t = time.time()
    env.set_warnings('ignore')
    uses, appends = canon.scan_operations_use()
    print(f'selftest: pokerkit from {env.pokerkit.__file__}; self.operations uses={uses} appends={appends} '
          f'log_in_key={canon.LOG_IN_KEY}')
    # canonical form covers every run-time field
    from dataclasses import fields
    names = {f.name for f in fields(env.S.State) if not f.init}
    assert set(canon.KEY_FIELDS) | {'operations'} == names, 'canonical form misses a field'
    # seam bites
    env.SHUFFLE_CALLS[0] = 0
    st = C.build(C.nt((4, 5, 6)))
    if env.SHUFFLE_CALLS[0] < 1:
        print('selftest: deck shuffle seam not used by State construction', file=sys.stderr)
        return 2
    # clone == deepcopy on every state of a reference exploration; determinism
    bad = [0]

    class CloneEq:
        def on_state(self, s, ms, menu, ctx):
            a, b = canon.clone(s), copy.deepcopy(s)
            if canon.snapshot(a) != canon.snapshot(b) or canon.snapshot(a) != canon.snapshot(s):
                bad[0] += 1
            for ev, _ in menu[:2]:
                try:
                    apply(a, ev), apply(b, ev)
                except Exception:
                    continue
                if canon.snapshot(a) != canon.snapshot(b):
                    bad[0] += 1
                break
    for cfg, o in [(C.nt((3, 5, 4), autos='NONE', mode='cash'), opts()),
                   (C.stud((3, 6), autos='ALL'), opts()),
                   (C.fl((3, 5), game='FixedLimitBadugi', autos='ALL'), opts(discards=('none', 'all')))]:
        stats, ctx = explore(cfg, monitors=[CloneEq()], menu_opts=o, dev_bound=2)
        d1, s1 = digest(cfg, o)
        d2, s2 = digest(cfg, o)
        if d1 != d2:
            print('selftest: exploration is not deterministic', file=sys.stderr)
            return 2
    if bad[0]:
        print(f'selftest: fast clone differs from deepcopy on {bad[0]} states', file=sys.stderr)
        return 2
    print(f'selftest ok in {time.time() - t:.1f}s')
    return 0
