"""pkmc - model checking machinery for pokerkit (see /verif/DESIGN.md)."""
