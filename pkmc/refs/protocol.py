"""Independent renderer of ACPC match-state messages and Pluribus lines from an operation log.

Written from the protocol description (docs/_static/protocol.pdf conventions as used by the
library's documentation): the betting string has ``f`` / ``c`` / ``r`` (limit) or ``r<total chips
the raiser has committed in the hand>`` (no-limit) with ``/`` at every board dealing; the card
field has each seat's hole cards separated by ``|`` (only the viewer's and tabled hands in the ACPC
form, every seat in the Pluribus form) followed by ``/<board cards>`` per street.
Nothing here imports pokerkit; records are read by class name and attributes.
"""


def _txt(cards):
    return ''.join(repr(c) for c in cards)


class Tracker:
    """chips each player has put into the pot so far, from the log alone"""

    def __init__(self, n):
        self.prev = [0] * n       # committed on earlier streets (and antes)
        self.street = [0] * n     # bet on this street

    def feed(self, op):
        nm = type(op).__name__
        if nm == 'AntePosting':
            self.prev[op.player_index] += op.amount
        elif nm in ('BlindOrStraddlePosting', 'BringInPosting', 'CheckingOrCalling'):
            self.street[op.player_index] += op.amount
        elif nm == 'CompletionBettingOrRaisingTo':
            self.street[op.player_index] = op.amount
        elif nm == 'BetCollection':
            for i, b in enumerate(self.street):
                self.prev[i] += b
            self.street = [0] * len(self.street)

    def committed(self, i):
        return self.prev[i] + self.street[i]


def betting_string_and_cards(ops, n, no_limit, viewer=None):
    """(actions, hole cards per seat as shown to ``viewer`` (None = everybody), board field)"""
    tr = Tracker(n)
    actions = ''
    holes = [''] * n
    shown = [''] * n
    board = ''
    in_board_deal = False      # consecutive board dealings (a flop dealt card by card) are one street
    for op in ops:
        nm = type(op).__name__
        tr.feed(op)
        if nm != 'BoardDealing':
            in_board_deal = False
        if nm == 'Folding':
            actions += 'f'
        elif nm == 'CheckingOrCalling':
            actions += 'c'
        elif nm == 'CompletionBettingOrRaisingTo':
            actions += f'r{tr.committed(op.player_index)}' if no_limit else 'r'
        elif nm == 'BoardDealing':
            if not in_board_deal:
                actions += '/'
                board += '/'
            board += _txt(op.cards)
            in_board_deal = True
        elif nm == 'HoleDealing':
            holes[op.player_index] += _txt(c for c in op.cards if c)
        elif nm == 'HoleCardsShowingOrMucking':
            t = _txt(c for c in op.hole_cards if c)
            if t:
                shown[op.player_index] = t
    if viewer is None:
        vis = [shown[i] or holes[i] for i in range(n)]
    else:
        vis = [(holes[i] if i == viewer else shown[i]) for i in range(n)]
    return actions, vis, board


def pluribus_line(ops, n, hand, payoffs, no_limit=True, players=None):
    a, vis, board = betting_string_and_cards(ops, n, no_limit)
    players = players or [f'p{i + 1}' for i in range(n)]
    return f'STATE:{hand}:{a}:{"|".join(vis)}{board}:{"|".join(str(p) for p in payoffs)}:{"|".join(players)}'


def acpc_messages(ops, n, viewer, hand, no_limit, ended, actor_pending):
    """the (direction, text) pairs a dealer exchanges with the client at seat ``viewer`` over the hand"""
    out = []
    for k, op in enumerate(ops):
        nm = type(op).__name__
        if nm in ('Folding', 'CheckingOrCalling', 'CompletionBettingOrRaisingTo'):
            a, vis, board = betting_string_and_cards(ops[:k], n, no_limit, viewer)
            state = f'MATCHSTATE:{viewer}:{hand}:{a}:{"|".join(vis)}{board}'
            out.append(('S->', state + '\r\n'))
            if op.player_index == viewer:
                a2, _, _ = betting_string_and_cards(ops[:k + 1], n, no_limit, viewer)
                out.append(('<-C', f'{state}:{a2[len(a):]}\r\n'))
    if ended or actor_pending:
        a, vis, board = betting_string_and_cards(ops, n, no_limit, viewer)
        out.append(('S->', f'MATCHSTATE:{viewer}:{hand}:{a}:{"|".join(vis)}{board}\r\n'))
    return out
