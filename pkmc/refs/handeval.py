"""Independent, rule-based hand evaluator (reference model for C04/C05/C12/C18).

Cards are 2-character texts ('As', 'Td').  Nothing here imports pokerkit: the
evaluator is written from the rules of each game, with integer ranks taken
from a per-game ordering string, multiplicity patterns from a Counter, and an
explicit category number.  ``strength(type, cards)`` returns a value such that
*larger means the better hand for that game* (so low games are already
reversed here, independently of pokerkit's ``low`` flag), or ``None`` when the
cards are not a hand of that type.
"""
from collections import Counter
from itertools import combinations

STD = '23456789TJQKA'        # ace high (wheel A-5 still a straight)
REG = 'A23456789TJQK'        # ace low
SHORT = '6789TJQKA'          # short deck, A-6-7-8-9 is the low straight
EOB = 'A2345678'             # eight or better, ace low
KUHN = 'JQK'
SUITS = 'cdhs'

HC, P1, P2, T3, ST, FL, FH, Q4, SF = range(9)
NAMES = {HC: 'High card', P1: 'One pair', P2: 'Two pair', T3: 'Three of a kind', ST: 'Straight',
         FL: 'Flush', FH: 'Full house', Q4: 'Four of a kind', SF: 'Straight flush'}


def distinct(cards):
    return len(set(cards)) == len(cards)


def known(cards):
    return all(len(c) == 2 and c[0] != '?' and c[1] != '?' for c in cards)


_RI = {}


def _rank_index(order):
    d = _RI.get(order)
    if d is None:
        d = _RI[order] = {r: i for i, r in enumerate(order)}
    return d


def five_card(cards, order, straights=True, flushes=True, flush_over_full=False):
    """(category, tiebreak) for a five-card poker hand; larger tuple = better high hand; None if not a hand."""
    if len(cards) != 5 or len(set(cards)) != 5:
        return None
    ri = _rank_index(order)
    try:
        rs = [ri[c[0]] for c in cards]
    except KeyError:                       # a rank foreign to the game, or unknown
        return None
    suits = {c[1] for c in cards}
    if '?' in suits or any(len(c) != 2 for c in cards):
        return None
    if len(set(rs)) < 5:
        cnt = Counter(rs)
        groups = sorted(cnt.items(), key=lambda kv: (kv[1], kv[0]), reverse=True)
        shape = tuple(m for _, m in groups)
        rk = tuple(r for r, _ in groups)
        if shape == (4, 1):
            return (Q4, rk)
        if shape == (3, 2):
            return (FL if flush_over_full else FH, rk)     # numbers swapped when a flush beats a full house
        if shape == (3, 1, 1):
            return (T3, rk)
        if shape == (2, 2, 1):
            return (P2, rk)
        assert shape == (2, 1, 1, 1), shape
        return (P1, rk)
    rs.sort(reverse=True)
    rk = tuple(rs)
    flush = flushes and len(suits) == 1
    straight_high = None
    if straights:
        if rk[0] - rk[4] == 4:
            straight_high = rk[0]
        elif rk == (len(order) - 1, 3, 2, 1, 0):   # ace plays low: A + the four lowest ranks of the game
            straight_high = 3
    if straight_high is not None:
        return (SF if flush else ST, (straight_high,))
    if flush:
        return (FH if flush_over_full else FL, rk)
    return (HC, rk)


class Rev:
    """Order-reversing wrapper (for low games)."""
    __slots__ = ('k',)

    def __init__(self, k):
        self.k = k

    def __lt__(self, o):
        return o.k < self.k

    def __gt__(self, o):
        return o.k > self.k

    def __le__(self, o):
        return o.k <= self.k

    def __ge__(self, o):
        return o.k >= self.k

    def __eq__(self, o):
        return isinstance(o, Rev) and self.k == o.k

    def __hash__(self):
        return hash(('Rev', self.k))

    def __repr__(self):
        return f'Rev{self.k!r}'


# ---------------------------------------------------------------------------------------------
# per-type class key: ``key(type, cards)`` -> (category, tiebreak) in "high" reading, or None.
# ``LOW[type]`` says whether the game awards the *lowest* key.
# ---------------------------------------------------------------------------------------------

def k_standard(cards):
    return five_card(cards, STD)


def k_short(cards):
    return five_card(cards, SHORT, flush_over_full=True)


def k_regular(cards):
    return five_card(cards, REG, straights=False, flushes=False)


def k_eob(cards):
    k = five_card(cards, EOB, straights=False, flushes=False)
    if k is None or k[0] != HC:
        return None
    return k


def k_badugi_with(order):
    def k(cards):
        if not 1 <= len(cards) <= 4 or not known(cards) or not distinct(cards):
            return None
        if len({c[1] for c in cards}) != len(cards) or len({c[0] for c in cards}) != len(cards):
            return None
        rs = sorted((order.index(c[0]) for c in cards), reverse=True)
        # "high" reading used with LOW=True: fewer cards is "higher" (worse), then higher ranks worse
        return (4 - len(cards), tuple(rs))
    return k


def k_kuhn(cards):
    if len(cards) != 1 or not known(cards) or cards[0][0] not in KUHN:
        return None
    return (HC, (KUHN.index(cards[0][0]),))


KEY = {
    'StandardHighHand': k_standard, 'StandardLowHand': k_standard,
    'GreekHoldemHand': k_standard, 'OmahaHoldemHand': k_standard,
    'ShortDeckHoldemHand': k_short,
    'EightOrBetterLowHand': k_eob, 'OmahaEightOrBetterLowHand': k_eob,
    'RegularLowHand': k_regular,
    'BadugiHand': k_badugi_with(REG), 'StandardBadugiHand': k_badugi_with(STD),
    'KuhnPokerHand': k_kuhn,
}
LOW = {
    'StandardHighHand': False, 'StandardLowHand': True, 'GreekHoldemHand': False, 'OmahaHoldemHand': False,
    'ShortDeckHoldemHand': False, 'EightOrBetterLowHand': True, 'OmahaEightOrBetterLowHand': True,
    'RegularLowHand': True, 'BadugiHand': True, 'StandardBadugiHand': True, 'KuhnPokerHand': False,
}
SIZES = {t: ((1, 2, 3, 4) if 'Badugi' in t else (1,) if t == 'KuhnPokerHand' else (5,)) for t in KEY}


def key(t, cards):
    return KEY[t](tuple(cards))


def strength(t, cards):
    k = key(t, cards)
    if k is None:
        return None
    return Rev(k) if LOW[t] else k


def label_of_key(t, k):
    """Category name of a reference class key."""
    if 'Badugi' in t:
        return NAMES[HC]
    cat = k[0]
    if t == 'ShortDeckHoldemHand' and cat in (FL, FH):
        # k_short swaps the two *numbers* (a flush outranks a full house); the names stay with the shapes
        return NAMES[FH] if cat == FL else NAMES[FL]
    return NAMES[cat]


def label(t, cards):
    k = key(t, cards)
    return None if k is None else label_of_key(t, k)


# ---------------------------------------------------------------------------------------------
# composition rules (C05): the legal card combinations of a (hole, board) pair
# ---------------------------------------------------------------------------------------------

def legal_combinations(t, hole, board):
    hole, board = tuple(hole), tuple(board)
    if t in ('StandardHighHand', 'StandardLowHand', 'ShortDeckHoldemHand', 'EightOrBetterLowHand', 'RegularLowHand'):
        yield from combinations(hole + board, 5)
    elif t in ('OmahaHoldemHand', 'OmahaEightOrBetterLowHand'):
        for h in combinations(hole, 2):
            for b in combinations(board, 3):
                yield h + b
    elif t == 'GreekHoldemHand':
        # both hole cards and exactly three board cards (defined for two hole cards)
        for b in combinations(board, 3):
            yield hole + b
    elif 'Badugi' in t:
        cards = hole + board
        for n in (4, 3, 2, 1):
            found = False
            for c in combinations(cards, n):
                if KEY[t](c) is not None:
                    found = True
                    yield c
            if found:
                return
    elif t == 'KuhnPokerHand':
        for c in hole + board:
            yield (c,)
    else:
        raise KeyError(t)


def best(t, hole, board):
    """(strength, cards) of the best legal hand, or None."""
    bs, bc = None, None
    for c in legal_combinations(t, hole, board):
        s = strength(t, c)
        if s is not None and (bs is None or s > bs):
            bs, bc = s, c
    return None if bs is None else (bs, bc)


def canonical_rep(t, cards):
    """A canonical member of the reference class of ``cards`` (same ranks; suits reassigned)."""
    k = key(t, cards)
    assert k is not None
    ranks = sorted(c[0] for c in cards)
    if 'Badugi' in t:
        return tuple(r + 'shdc'[i] for i, r in enumerate(ranks))
    if t == 'KuhnPokerHand':
        return (ranks[0] + 's',)
    cares = t not in ('EightOrBetterLowHand', 'OmahaEightOrBetterLowHand', 'RegularLowHand')
    if cares and len({c[1] for c in cards}) == 1:
        return tuple(r + 's' for r in ranks)
    return tuple(r + 'shdc'[i % 4] for i, r in enumerate(ranks))
