"""C02 / C12 oracle: independent layered pot award, computed from the operation log."""


def award(n, contrib, pooled, live, hands, nboards, ntypes, divmod_, rake=None, cover=None):
    """Expected gross winnings.

    contrib[i]: chips player i has in the layered pots (net of returned uncalled bets; untrimmed
                antes excluded - they are ``pooled`` into the first layer)
    hands[i][b][t]: comparable strength (bigger is better) of live player i on board b for hand type t, or None
    Returns (win list, info) or (None, reason) where the statement leaves the result open.
    """
    win = [0] * n
    lv = [i for i in range(n) if live[i]]
    info = {'pots': [], 'raked': 0}
    rake = rake or (lambda a: (0, a))
    if not lv:
        return None, 'nobody-live'
    c = list(contrib)
    cover = list(cover) if cover is not None else c   # eligibility level: chips committed incl. a bet still in front
    # layer 0 holds the pooled (untrimmed) antes: every live player is eligible for it
    levels = sorted(set(x for x in c if x > 0) | {0})
    pots = {}
    order = []
    prev = 0
    for lvl in levels:
        amt = sum(min(ci, lvl) - min(ci, prev) for ci in c) if lvl else pooled
        elig = tuple(i for i in lv if cover[i] >= lvl)
        if amt:
            if order and order[-1] == elig:
                pots[len(order) - 1] += amt
            else:
                order.append(elig)
                pots[len(order) - 1] = amt
        prev = lvl
    if len(lv) == 1:
        # a lone survivor takes everything (rake still applies per pot)
        w = lv[0]
        for k, elig in enumerate(order):
            raked, unraked = rake(pots[k])
            info['raked'] += raked
            win[w] += unraked
            info['pots'].append((pots[k], elig))
        return win, info
    for k, elig in enumerate(order):
        amt = pots[k]
        info['pots'].append((amt, elig))
        if not elig:
            return None, 'pot-without-eligible-player'
        raked, unraked = rake(amt)
        info['raked'] += raked
        q, r = divmod_(unraked, nboards)
        for b in range(nboards):
            ba = q + (r if b == 0 else 0)
            types = [t for t in range(ntypes) if any(hands[i][b][t] is not None for i in elig)]
            if not types:
                return None, 'no-hand-on-board'
            tq, tr = divmod_(ba, len(types))
            for t in types:
                ta = tq + (tr if t == types[0] else 0)
                best = max(hands[i][b][t] for i in elig if hands[i][b][t] is not None)
                ws = [i for i in elig if hands[i][b][t] is not None and hands[i][b][t] == best]
                wq, wr = divmod_(ta, len(ws))
                for i in ws:
                    win[i] += wq + (wr if i == ws[0] else 0)
    return win, info


def shown_cards(ops, i):
    """cards player i has face up according to the log"""
    out = []
    for o in ops:
        nm = type(o).__name__
        if getattr(o, 'player_index', None) != i:
            continue
        if nm == 'HoleDealing':
            out += [repr(c) for c, up in zip(o.cards, o.statuses) if up and repr(c) != '??']
        elif nm == 'StandingPatOrDiscarding':
            for c in o.cards:
                if repr(c) in out:
                    out.remove(repr(c))
        elif nm == 'HoleCardsShowingOrMucking':
            for c in o.hole_cards:
                if repr(c) != '??' and '?' not in repr(c) and repr(c) not in out:
                    out.append(repr(c))
    return out


def ref_divmod(a, d):
    """The documented default split: whole chips share as builtin divmod does (remainder = odd chips), any other chip type is
    divided exactly (nothing left over beyond rounding)."""
    if isinstance(a, int) and not isinstance(a, bool):
        return divmod(a, d)
    q = a / d
    return q, a - q * d


def same_chips(a, b):
    from fractions import Fraction
    if isinstance(a, (int, Fraction)) and isinstance(b, (int, Fraction)):
        return a == b
    return abs(a - b) <= 1e-9


FORCED = ('AntePosting', 'BlindOrStraddlePosting', 'BringInPosting', 'CheckingOrCalling')


def log_accounting(st):
    """Replay the chip movements of the log independently.

    Returns dict(put_in, returned, contrib, pooled, live, recv, collections_ok).
    """
    n = st.player_count
    bets = [0] * n
    put_in = [0] * n
    returned = [0] * n
    in_pot = [0] * n           # chips collected into pots per player (after returns)
    ante_part = [0] * n
    live = [True] * n
    recv = [0] * n
    pulled = [0] * n
    notes = []
    street_started = False
    for o in st.operations:
        nm = type(o).__name__
        if nm in FORCED:
            bets[o.player_index] += o.amount
            put_in[o.player_index] += o.amount
            if nm == 'AntePosting':
                ante_part[o.player_index] += o.amount
        elif nm == 'CompletionBettingOrRaisingTo':
            d = o.amount - bets[o.player_index]
            bets[o.player_index] = o.amount
            put_in[o.player_index] += d
        elif nm in ('HoleDealing', 'BoardDealing', 'CardBurning'):
            street_started = True
        elif nm == 'BetCollection':
            nlive = sum(live)
            collected = list(bets)
            antes_round = not street_started
            if nlive == 1:
                w = live.index(True)
                collected[w] = 0          # the survivor's own bet stays in front of him
            if not (antes_round and not st.ante_trimming_status):
                top2 = sorted(bets)[-2] if n >= 2 else 0
                for i in range(n):
                    if collected[i] > top2:
                        returned[i] += collected[i] - top2
                        collected[i] = top2
            if tuple(collected) != tuple(o.bets):
                notes.append(('collection-record', tuple(collected), tuple(o.bets)))
            for i in range(n):
                in_pot[i] += collected[i]
                if nlive == 1 and live[i]:
                    pass
                else:
                    bets[i] = 0
        elif nm in ('Folding', 'HandKilling'):
            live[o.player_index] = False
        elif nm == 'HoleCardsShowingOrMucking' and not o.hole_cards:
            live[o.player_index] = False
        elif nm == 'ChipsPushing':
            for i, a in enumerate(o.amounts):
                recv[i] += a
                if a and not live[i]:
                    notes.append(('pushed-to-dead', i, a))
        elif nm == 'ChipsPulling':
            pulled[o.player_index] += o.amount
    pooled = 0
    contrib = list(in_pot)
    if not st.ante_trimming_status:
        for i in range(n):
            a = ante_part[i]
            contrib[i] -= a
            pooled += a
    return dict(put_in=put_in, returned=returned, in_pot=in_pot, contrib=contrib, pooled=pooled, live=live,
                recv=recv, pulled=pulled, notes=notes, front=bets)


# ---- reference hand strength on the tiny decks (independent of pokerkit.hands)
def tiny_strength(cards, tname):
    ranks = [c[0] for c in cards if c and c != '??']
    if tname in ('KuhnAny', 'KuhnPokerHand'):
        vals = [{'J': 0, 'Q': 1, 'K': 2}[r] for r in ranks if r in 'JQK']
        return max(vals) if vals else None
    if tname == 'JQLow':
        vals = [{'J': 1, 'Q': 0}[r] for r in ranks if r in 'JQ']
        return max(vals) if vals else None
    if tname == 'TwoCardAny':
        vals = sorted(('23456789TJQKA'.index(r) for r in ranks), reverse=True)
        if len(vals) < 2:
            return None
        pairs = [v for v in set(vals) if vals.count(v) >= 2]
        return (1, max(pairs), 0) if pairs else (0, vals[0], vals[1])
    if tname == 'HighCardAny':
        vals = ['23456789TJQKA'.index(r) for r in ranks]
        return max(vals) if vals else None
    raise KeyError(tname)
