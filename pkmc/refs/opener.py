"""C13 oracle: who opens a betting round (independent of state.py's _begin_betting)."""
from collections import Counter

STD = '23456789TJQKA'      # ace high
REG = 'A23456789TJQK'      # ace low
SUITS = 'cdhs'


def button_designee(n, layout, first_round):
    """Seat designated to open a round of a button game, or 'undet'.

    layout: the blinds/straddles as configured (negative = post by a late-seated player)."""
    if not first_round:
        return 0                                   # first seat after the button (seat n-1)
    pos = [r for r, b in enumerate(layout) if b > 0]
    if not pos:
        return 'undet'
    last = max(pos)
    largest = max(layout[r] for r in pos)
    if layout[last] != largest:
        return 'undet'                             # "last blind" ambiguous: largest is not the last
    if [r for r in pos if layout[r] == largest and r != last] and n == 2:
        pass
    seat = (1 - last) if n == 2 else last          # heads-up: blinds are posted reversed
    return (seat + 1) % n


def door_opener(cards, razz):
    """cards: per player, one up-card text or a list of them (None/empty for players without cards).

    The single lowest (stud: ace high) or highest (razz: ace low) card showing anywhere decides; suits break ties."""
    flat = [(i, c) for i, cs in enumerate(cards) if cs for c in ([cs] if isinstance(cs, str) else cs)]
    if razz:
        return max(flat, key=lambda x: (REG.index(x[1][0]), SUITS.index(x[1][1]), -x[0]))[0]
    return min(flat, key=lambda x: (STD.index(x[1][0]), SUITS.index(x[1][1]), x[0]))[0]


def card_opener(opening, ups):
    """Designee of a card-based opening rule from the up-card texts per player ([] = out of the hand);
    None when it cannot be decided (unknown cards, nobody showing)."""
    if not any(ups) or any(c[0] == '?' or c[1] == '?' for u in ups for c in u):
        return None
    if opening == 'LOW_CARD':
        return door_opener(ups, False)
    if opening == 'HIGH_CARD':
        return door_opener(ups, True)
    if opening == 'HIGH_HAND':
        return exposed_opener(ups, False)
    if opening == 'LOW_HAND':
        return exposed_opener(ups, True)
    return None


def exposed_strength(cs, razz):
    order = REG if razz else STD
    cnt = Counter(order.index(c[0]) for c in cs)
    pattern = sorted(cnt.values(), reverse=True)
    ranks = sorted(cnt, key=lambda r: (cnt[r], r), reverse=True)
    return (pattern, ranks)


def exposed_opener(ups, razz):
    """ups: list of up-card text lists (empty for players out of the hand)."""
    idx = [i for i, u in enumerate(ups) if u]
    st = {i: exposed_strength(ups[i], razz) for i in idx}
    best = (min if razz else max)(st.values())
    return min(i for i in idx if st[i] == best)


def first_able(n, designee, live, stacks, bets):
    """The designee if he can act, else the turn passes clockwise; None if nobody can act."""
    from .betting import Round
    r = Round(n, 'NL', True, 1, None, live, stacks, bets, 0, designee)
    r.start()
    return r.actor
