"""C07 oracle: documented phase structure (docs/simulation.rst, docs/_static/phases.drawio)."""

PHASE_OF_OP = {
    'AntePosting': 'A', 'BetCollection': 'C', 'BlindOrStraddlePosting': 'B',
    'CardBurning': 'D', 'HoleDealing': 'D', 'BoardDealing': 'D', 'StandingPatOrDiscarding': 'D',
    'Folding': 'T', 'CheckingOrCalling': 'T', 'BringInPosting': 'T', 'CompletionBettingOrRaisingTo': 'T',
    'RunoutCountSelection': 'S', 'HoleCardsShowingOrMucking': 'S',
    'HandKilling': 'K', 'ChipsPushing': 'P', 'ChipsPulling': 'L',
}
PHASE_NAMES = {'A': 'ante posting', 'C': 'bet collection', 'B': 'blind/straddle posting', 'D': 'dealing',
               'T': 'betting', 'S': 'showdown', 'K': 'hand killing', 'P': 'chips pushing', 'L': 'chips pulling'}

# documented order with the documented skips folded in (a phase is skipped when it has nothing to do):
# Begin -> A -> C -> {B | D | S | P};  B -> D -> T -> C;  S -> {D (all-in run-out) | K} ; K -> P -> L -> End
ALLOWED = {
    None: {'A', 'B', 'D'},
    'A': {'A', 'C'},
    'C': {'B', 'D', 'S', 'K', 'P'},
    'B': {'B', 'D'},
    'D': {'D', 'T', 'C', 'S', 'K', 'P'},
    'T': {'T', 'C', 'D', 'S', 'K', 'P'},
    'S': {'S', 'D', 'K', 'P'},
    'K': {'K', 'P'},
    'P': {'P', 'L'},
    'L': {'L'},
}


def allowed(prev, ph, st, ctx=None):
    if ph in ALLOWED[prev]:
        return True
    # chips pushing has nothing to do when no pot holds any chip (e.g. the only bet out was the lone survivor's own,
    # uncalled): the hand then goes from where it stood straight to chips pulling
    if ph == 'L' and prev in ('C', 'D', 'T', 'S', 'K'):
        try:
            empty = sum(p.amount for p in st.pots) == 0
        except Exception:
            empty = False
        if empty:
            if ctx is not None:
                ctx.counters['pushing_skipped_with_empty_pot'] += 1
            return True
    return False


def active_phases(st):
    ph = []
    if st.can_post_ante():
        ph.append('A')
    if st.can_collect_bets():
        ph.append('C')
    if st.can_post_blind_or_straddle():
        ph.append('B')
    if st.can_burn_card() or st.can_deal_hole() or st.can_deal_board() or st.can_stand_pat_or_discard():
        ph.append('D')
    if st.can_fold() or st.can_check_or_call() or st.can_post_bring_in() or st.can_complete_bet_or_raise_to():
        ph.append('T')
    if st.can_select_runout_count() or st.can_show_or_muck_hole_cards():
        ph.append('S')
    if st.can_kill_hand():
        ph.append('K')
    if st.can_push_chips():
        ph.append('P')
    if st.can_pull_chips():
        ph.append('L')
    return ph


def voluntary_show(ops, k, n):
    """Is ops[k] (a HoleCardsShowingOrMucking record) a show outside the showdown phase - the documented non-standard showdown a
    still-active player may perform when no street is on?  From the log alone: the hand was already down to one live player
    (no showdown takes place), or hand killing / chips pushing / pulling had begun."""
    n_out = 0
    late = False
    for o in ops[:k]:
        nm = type(o).__name__
        if nm in ('Folding', 'HandKilling') or (nm == 'HoleCardsShowingOrMucking' and not o.hole_cards):
            n_out += 1
        ph = PHASE_OF_OP.get(nm)
        if ph in ('K', 'P', 'L'):
            late = True
        elif ph in ('D', 'B'):
            late = False
    return late or (n - n_out) <= 1


def last_phase(ops, n):
    for k in range(len(ops) - 1, -1, -1):
        nm = type(ops[k]).__name__
        if nm == 'HoleCardsShowingOrMucking' and voluntary_show(ops, k, n):
            continue
        return PHASE_OF_OP.get(nm)
    return None


class PhaseMonitor:
    name = 'phases'

    def __init__(self, prop='C07'):
        self.prop = prop
        self._obj = None
        self._last = (None, False)  # (phase of previous op, bets were out after it)

    def _path(self, ctx):
        return list(ctx.path) + ([ctx.cur_event] if ctx.cur_event and ctx.cur_event[0] != '<construct>' else [])

    def on_menu_error(self, st, ms, exc, ctx):
        from ..explore import query_raised
        query_raised(self.prop, st, exc, ctx)

    def before_apply(self, c, ev, ctx):
        self._obj = c
        self._last = (last_phase(c.operations, c.player_count), any(c.bets))

    def on_update(self, st, op, ctx):
        if op is None:
            if st is not self._obj:
                self._obj = st
                self._last = (None, False)
            return
        name = type(op).__name__
        ph = PHASE_OF_OP.get(name)
        if ph is None:
            return
        if name == 'HoleCardsShowingOrMucking' and voluntary_show(st.operations, len(st.operations) - 1, st.player_count):
            ctx.counters['voluntary_shows_outside_the_showdown'] += 1
            return
        if st is not self._obj:      # construction cascade: object first seen now
            self._obj = st
            n = len(st.operations)
            prev = PHASE_OF_OP.get(type(st.operations[-2]).__name__) if n >= 2 else None
            self._last = (prev, self._last[1] if n >= 2 else False)
        prev, bets_out = self._last
        ctx.counters['edges_checked'] += 1
        if not allowed(prev, ph, st, ctx):
            ctx.violation('phase-order',
                          f'{PHASE_NAMES.get(prev, "begin")} -> {PHASE_NAMES[ph]} is not in the documented diagram '
                          f'(operation {op})', path=self._path(ctx), sig=(self.prop, 'phase-order', str(prev), ph))
        elif ph == 'C' and not bets_out and prev != 'C':
            ctx.violation('collection-without-bets', f'bet collection with no bet out (after {prev})',
                          path=self._path(ctx), sig=(self.prop, 'collection-without-bets', str(prev)))
        elif prev in ('A', 'D', 'T') and bets_out and ph in ('B', 'S', 'K', 'P'):
            ctx.violation('collection-skipped', f'{PHASE_NAMES[prev]} -> {PHASE_NAMES[ph]} with bets still out',
                          path=self._path(ctx), sig=(self.prop, 'collection-skipped', prev, ph))
        self._last = (ph, any(st.bets))

    def on_state(self, st, ms, menu, ctx):
        ph = active_phases(st)
        ctx.counters['phase_states_checked'] += 1
        if st.status:
            if len(ph) != 1:
                ctx.violation('one-phase', f'status=True but active phases (default-argument queries) = {ph}; '
                              f'last op {st.operations[-1] if st.operations else None}',
                              sig=(self.prop, 'one-phase', ''.join(ph) or 'none'))
            else:
                ctx.counters['phase_' + ph[0]] += 1
                last = last_phase(st.operations, st.player_count)
                if not allowed(last, ph[0], st) and not (last == 'C' and ph[0] == 'C'):
                    ctx.violation('phase-order-state', f'after {PHASE_NAMES.get(last, "begin")} the active phase is {PHASE_NAMES[ph[0]]}',
                                  sig=(self.prop, 'phase-order-state', str(last), ph[0]))
        else:
            if ph:
                ctx.violation('over-but-active', f'status=False but {ph} still has available operations',
                              sig=(self.prop, 'over-but-active', ''.join(ph)))
            last = last_phase(st.operations, st.player_count)
            if last not in ('P', 'L'):
                shape = 'nobody-live' if not any(st.statuses) else str(last)
                ctx.violation('ended-early', f'hand over after {PHASE_NAMES.get(last)} without pushing the pot '
                              f'(live players: {sum(st.statuses)}, pots: {[(p.amount, p.player_indices) for p in st.pots]})',
                              sig=(self.prop, 'ended-early', shape))

    def on_error(self, pre, ms, ev, exc, ctx):
        from ..explore import exc_signature, error_shape
        sig = exc_signature(exc) + (error_shape(ctx.cfg, list(ctx.path) + [ev], pre, ev),)
        ctx.violation('legal-operation-raised',
                      f'{ev} was available (query said yes) but raised {type(exc).__name__}: {exc} at {sig[1]}: {sig[2]}',
                      path=list(ctx.path) + [ev], sig=(self.prop, 'raised') + sig)

    def on_deadlock(self, st, ms, ctx):
        ctx.violation('deadlock', 'status=True but no operation is available', sig=(self.prop, 'deadlock'))
