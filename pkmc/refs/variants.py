"""C11 oracle: what each predefined variant is, written from the rules of the games (not read from games.py).

Street tuple: (burn, hole facings, board cards, draw, opening, bet: 'small'|'big'|'min')."""

D, U = False, True
HOLDEM_STREETS = lambda k: [(False, (D,) * k, 0, False, 'POSITION'), (True, (), 3, False, 'POSITION'),
                            (True, (), 1, False, 'POSITION'), (True, (), 1, False, 'POSITION')]
STUD_STREETS = lambda first, later: [(False, (D, D, U), 0, False, first), (True, (U,), 0, False, later),
                                     (True, (U,), 0, False, later), (True, (U,), 0, False, later),
                                     (True, (D,), 0, False, later)]
SINGLE_DRAW = lambda k: [(False, (D,) * k, 0, False, 'POSITION'), (True, (), 0, True, 'POSITION')]
TRIPLE_DRAW = lambda k: [(False, (D,) * k, 0, False, 'POSITION')] + [(True, (), 0, True, 'POSITION')] * 3

STD52 = [r + s for r in '23456789TJQKA' for s in 'cdhs']
SHORT36 = [r + s for r in '6789TJQKA' for s in 'cdhs']
ROYAL20 = [r + s for r in 'TJQKA' for s in 'cdhs']

VARIANTS = {
    # class name: (PHH code, deck, hand types, structure, streets, bets per street, cap, forced)
    'FixedLimitTexasHoldem': ('FT', STD52, ['StandardHighHand'], 'FL', HOLDEM_STREETS(2), ['small', 'small', 'big', 'big'], 4, 'blinds'),
    'NoLimitTexasHoldem': ('NT', STD52, ['StandardHighHand'], 'NL', HOLDEM_STREETS(2), ['min'] * 4, None, 'blinds'),
    'NoLimitRoyalHoldem': (None, ROYAL20, ['StandardHighHand'], 'NL', HOLDEM_STREETS(2), ['min'] * 4, None, 'blinds'),
    'NoLimitShortDeckHoldem': ('NS', SHORT36, ['ShortDeckHoldemHand'], 'NL', HOLDEM_STREETS(2), ['min'] * 4, None, 'blinds'),
    'PotLimitOmahaHoldem': ('PO', STD52, ['OmahaHoldemHand'], 'PL', HOLDEM_STREETS(4), ['min'] * 4, None, 'blinds'),
    'FixedLimitOmahaHoldemHighLowSplitEightOrBetter': ('FO/8', STD52, ['OmahaHoldemHand', 'OmahaEightOrBetterLowHand'], 'FL',
                                                       HOLDEM_STREETS(4), ['small', 'small', 'big', 'big'], 4, 'blinds'),
    'FixedLimitSevenCardStud': ('F7S', STD52, ['StandardHighHand'], 'FL', STUD_STREETS('LOW_CARD', 'HIGH_HAND'),
                                ['small', 'small', 'big', 'big', 'big'], 4, 'bring_in'),
    'FixedLimitSevenCardStudHighLowSplitEightOrBetter': ('F7S/8', STD52, ['StandardHighHand', 'EightOrBetterLowHand'], 'FL',
                                                         STUD_STREETS('LOW_CARD', 'HIGH_HAND'), ['small', 'small', 'big', 'big', 'big'], 4, 'bring_in'),
    'FixedLimitRazz': ('FR', STD52, ['RegularLowHand'], 'FL', STUD_STREETS('HIGH_CARD', 'LOW_HAND'),
                       ['small', 'small', 'big', 'big', 'big'], 4, 'bring_in'),
    'NoLimitDeuceToSevenLowballSingleDraw': ('N2L1D', STD52, ['StandardLowHand'], 'NL', SINGLE_DRAW(5), ['min'] * 2, None, 'blinds'),
    'FixedLimitDeuceToSevenLowballTripleDraw': ('F2L3D', STD52, ['StandardLowHand'], 'FL', TRIPLE_DRAW(5),
                                                ['small', 'small', 'big', 'big'], 4, 'blinds'),
    'FixedLimitBadugi': ('FB', STD52, ['BadugiHand'], 'FL', TRIPLE_DRAW(4), ['small', 'small', 'big', 'big'], 4, 'blinds'),
}
STRUCT_NAME = {'FL': 'Fixed-limit', 'PL': 'Pot-limit', 'NL': 'No-limit'}
