"""C01 oracle: chip conservation after every logged operation."""
from fractions import Fraction
from decimal import Decimal


def _exact(x):
    return isinstance(x, (int, Fraction))


class ChipsMonitor:
    name = 'chips'

    def __init__(self, prop='C01'):
        self.prop = prop

    def _viol(self, st, op, ctx, what, detail):
        path = list(ctx.path) + ([ctx.cur_event] if ctx.cur_event and ctx.cur_event[0] != '<construct>' else [])
        opn = type(op).__name__ if op is not None else 'None'
        ctx.violation(what, f'{detail} after {opn}: stacks={st.stacks} bets={st.bets} '
                      f'pots={[(p.raked_amount, p.unraked_amount, p.player_indices) for p in st.pots]} '
                      f'payoffs={st.payoffs} start={st.starting_stacks}',
                      path=path, sig=(self.prop, what, 'nobody-live' if not any(st.statuses) else opn))

    def on_state(self, st, ms, menu, ctx):
        # also at every explored state: the final state is only visible here
        # (status flips after the last logged operation)
        self.on_update(st, st.operations[-1] if st.operations else None, ctx, at_state=True)

    def on_update(self, st, op, ctx, at_state=False):
        ctx.counters['states_checked' if at_state else 'updates_checked'] += 1
        try:
            pots = list(st.pots)
        except Exception as exc:  # pots property itself failed
            self._viol(st, op, ctx, 'pots-raises', f'{type(exc).__name__}: {exc}')
            return
        total = sum(st.stacks) + sum(st.bets)
        raked = 0
        for p in pots:
            total += p.raked_amount + p.unraked_amount
            raked += p.raked_amount
            if p.raked_amount < 0 or p.unraked_amount < 0:
                self._viol(st, op, ctx, 'negative-pot', 'negative pot part')
        start = sum(st.starting_stacks)
        exact = _exact(total) and _exact(start)
        tol = 0 if exact else 1e-9 * max(1, abs(float(start)))
        if (total != start) if exact else (abs(float(total) - float(start)) > tol):
            self._viol(st, op, ctx, 'conservation', f'on-table total {total} != seated {start}')
        if min(st.stacks) < 0 or min(st.bets) < 0:
            self._viol(st, op, ctx, 'negative', 'negative stack or bet')
        if len(pots) > 1:
            ctx.counters['multi_pot_updates'] += 1
        if raked:
            ctx.counters['raked_updates'] += 1
            if not ctx.cfg.get('rake'):
                self._viol(st, op, ctx, 'rake-without-rake', f'{raked} raked although no rake is configured')
        if not st.status:
            ctx.counters['final_states_checked'] += 1
            if st.board_count >= 3:
                ctx.counters['final_states_with_3+_boards'] += 1
            if len(st.hand_types) > 1:
                ctx.counters['final_states_of_split_games'] += 1
            if any(st.bets):
                self._viol(st, op, ctx, 'final-bets', 'chips left in front of players at the end')
            if any(p.unraked_amount for p in pots):
                self._viol(st, op, ctx, 'final-pot', 'unraked chips left in a pot at the end')
            for i in range(st.player_count):
                d = st.stacks[i] - st.starting_stacks[i]
                if (st.payoffs[i] != d) if exact else (abs(float(st.payoffs[i]) - float(d)) > tol):
                    self._viol(st, op, ctx, 'final-payoff', f'payoff[{i}]={st.payoffs[i]} != stack-start={d}')
            sp = sum(st.payoffs)
            if (sp != -raked) if exact else (abs(float(sp) + float(raked)) > tol):
                self._viol(st, op, ctx, 'zero-sum', f'sum(payoffs)={sp} != -rake={-raked}')
