"""C10 oracle: dealing protocol per street, from the street definitions (independent bookkeeping)."""

DEAL_OPS = ('CardBurning', 'HoleDealing', 'BoardDealing', 'StandingPatOrDiscarding')
BET_OPS = ('Folding', 'CheckingOrCalling', 'BringInPosting', 'CompletionBettingOrRaisingTo')


class Deal:
    """Expectation for one street instance + the hands as dealt so far."""
    __slots__ = ('street', 'burn', 'hole', 'board', 'draw', 'dealt_any', 'hands', 'fallback', 'instances', 'ever_fb')

    def __init__(self, n):
        self.street = None
        self.burn = False
        self.hole = [[] for _ in range(n)]    # pending facings per player
        self.board = []                       # pending count per board
        self.draw = [False] * n
        self.dealt_any = False
        self.hands = [[] for _ in range(n)]   # (card text, facing) per player, as dealt
        self.fallback = False
        self.instances = 0
        self.ever_fb = False

    def copy(self):
        d = Deal.__new__(Deal)
        d.street, d.burn, d.dealt_any, d.fallback, d.instances, d.ever_fb = self.street, self.burn, self.dealt_any, self.fallback, self.instances, self.ever_fb
        d.hole = [list(x) for x in self.hole]
        d.board = list(self.board)
        d.draw = list(self.draw)
        d.hands = [list(x) for x in self.hands]
        return d

    def pending(self):
        return self.burn or any(self.hole) or any(self.board) or any(self.draw)

    def key(self):
        return (self.street, self.burn, tuple(tuple(x) for x in self.hole), tuple(self.board), tuple(self.draw),
                self.dealt_any, tuple(tuple(x) for x in self.hands), self.ever_fb)


def available(st):
    return len(st.deck_cards) + len(st.burn_cards) + len(st.mucked_cards) + sum(len(d) for d in st.discarded_cards)


class DealingMonitor:
    name = 'dealing'

    def __init__(self, prop='C10'):
        self.prop = prop
        self._w = None
        self._obj = None

    def _v(self, ctx, what, detail):
        path = list(ctx.path) + ([ctx.cur_event] if ctx.cur_event and ctx.cur_event[0] != '<construct>' else [])
        ctx.violation(what, detail, path=path, sig=(self.prop, what))

    def init(self, st, ctx):
        w = self._w if self._obj is st and self._w is not None else Deal(st.player_count)
        self._w = None
        return w

    def key(self, ms):
        return ms.key()

    def before_apply(self, c, ev, ctx):
        ms = None
        for x in ctx.node_ms:
            if isinstance(x, Deal):
                ms = x
        self._obj = c
        self._w = ms.copy() if ms is not None else Deal(c.player_count)

    def on_edge(self, pre, ms, ev, post, rec, ctx):
        w = self._w
        self._w = None
        return w if w is not None else ms

    # ------------------------------------------------------------------
    def _begin_street(self, st, op, ctx):
        w = self._w
        n = st.player_count
        street = st.streets[st.street_index]
        w.street = st.street_index
        w.instances += 1
        w.burn = street.card_burning_status
        w.dealt_any = False
        w.board = [street.board_dealing_count] * st.starting_board_count
        name = type(op).__name__
        a0 = available(st)
        if name in ('HoleDealing', 'BoardDealing'):
            a0 += len(op.cards)
        elif name == 'StandingPatOrDiscarding':
            a0 -= len(op.cards)
        live = list(st.statuses)
        # a folded player is not live; statuses cannot change during dealing
        need = sum(len(street.hole_dealing_statuses) for i in range(n) if live[i])
        w.fallback = need > a0
        for i in range(n):
            w.hole[i] = list(street.hole_dealing_statuses) if live[i] and not w.fallback else []
            w.draw[i] = bool(street.draw_status and live[i])
        if w.fallback:
            ctx.counters['hole_to_board_fallbacks'] += 1
            w.ever_fb = True
            w.board = [b + len(street.hole_dealing_statuses) for b in w.board]
        ctx.counters['street_instances'] += 1

    def on_update(self, st, op, ctx):
        if op is None:
            return
        if st is not self._obj or self._w is None:
            self._obj = st
            self._w = Deal(st.player_count)
        w = self._w
        name = type(op).__name__
        if name in BET_OPS:
            if w.pending() and w.street == st.street_index:
                self._v(ctx, 'betting-before-dealing-complete',
                        f'{op} while street {w.street} still expects burn={w.burn} hole={w.hole} board={w.board} draws={w.draw}')
                w.burn, w.hole, w.board, w.draw = False, [[] for _ in w.hole], [0 for _ in w.board], [False for _ in w.draw]
            if name == 'Folding':
                w.hands[op.player_index] = []
            return
        if name == 'HandKilling' or (name == 'HoleCardsShowingOrMucking' and not op.hole_cards):
            w.hands[op.player_index] = []
            return
        if name == 'HoleCardsShowingOrMucking':
            w.hands[op.player_index] = [(c, True) for c, _ in w.hands[op.player_index]]
            return
        if name not in DEAL_OPS:
            return
        ctx.counters['dealing_ops_checked'] += 1
        if st.street_index is None:
            self._v(ctx, 'dealing-outside-street', f'{op} with no street active')
            return
        if not w.pending() or w.street != st.street_index:
            if w.pending():
                self._v(ctx, 'street-left-with-pending', f'street {w.street} left with burn={w.burn} hole={w.hole} board={w.board} draws={w.draw}')
            self._begin_street(st, op, ctx)
        ev = ctx.cur_event
        explicit_player = bool(ev and ev[0] == 'deal_hole' and len(ev) > 2)
        top_level = bool(ev and ev[0] in ('deal_hole', 'deal_board', 'burn_card', 'stand_pat_or_discard'))
        if name == 'CardBurning':
            if not w.burn:
                self._v(ctx, 'unexpected-burn', f'{op}: street {w.street} prescribes no (further) burn')
            elif w.dealt_any:
                self._v(ctx, 'burn-not-first', f'{op} after cards of the street were dealt')
            elif any(w.draw):
                self._v(ctx, 'burn-before-draws', f'{op} while draws {w.draw} are pending')
            w.burn = False
        elif name == 'StandingPatOrDiscarding':
            i = op.player_index
            pend = [k for k, d in enumerate(w.draw) if d]
            if not w.draw[i]:
                self._v(ctx, 'unexpected-draw', f'{op}: player {i} has no draw pending ({w.draw})')
            elif i != pend[0]:
                self._v(ctx, 'draw-order', f'{op}: player {pend[0]} draws first')
            w.draw[i] = False
            for c in op.cards:
                t = repr(c)
                hit = [k for k, (cc, _) in enumerate(w.hands[i]) if cc == t]
                if not hit:
                    self._v(ctx, 'discard-not-held', f'{op}: {t} was not dealt to player {i} ({w.hands[i]})')
                    continue
                _, facing = w.hands[i].pop(hit[0])
                w.hole[i].append(facing)
            if op.cards:
                ctx.counters['discards'] += 1
        elif name == 'HoleDealing':
            i = op.player_index
            if w.burn:
                self._v(ctx, 'deal-before-burn', f'{op} while the burn is pending')
            if any(w.draw):
                self._v(ctx, 'deal-before-draws', f'{op} while draws {w.draw} are pending')
            if not st.statuses[i]:
                self._v(ctx, 'dealt-to-folded-player', f'{op}')
            k = len(op.cards)
            if k > len(w.hole[i]) or k == 0:
                self._v(ctx, 'hole-count', f'{op}: player {i} expects {w.hole[i]} more cards on street {w.street}')
            else:
                if list(op.statuses) != w.hole[i][:k]:
                    self._v(ctx, 'hole-facing', f'{op}: facing should be {w.hole[i][:k]}')
                if not explicit_player:
                    street = st.streets[w.street]
                    if street.draw_status:
                        want = next(p for p, x in enumerate(w.hole) if x)
                    else:
                        want = max(range(len(w.hole)), key=lambda p: (len(w.hole[p]), -p))
                    if i != want:
                        self._v(ctx, 'default-dealee', f'{op}: default dealee should be {want} (pending {w.hole})')
                del w.hole[i][:k]
            for c, f in zip(op.cards, op.statuses):
                w.hands[i].append((repr(c), f))
            w.dealt_any = True
        elif name == 'BoardDealing':
            if w.burn:
                self._v(ctx, 'deal-before-burn', f'{op} while the burn is pending')
            if any(w.draw):
                self._v(ctx, 'deal-before-draws', f'{op} while draws are pending')
            k = len(op.cards)
            tgt = [b for b, c in enumerate(w.board) if c]
            if not tgt or k == 0 or k > w.board[tgt[0]]:
                self._v(ctx, 'board-count', f'{op}: boards expect {w.board} more cards on street {w.street}')
                w.board = [0 for _ in w.board]
            else:
                w.board[tgt[0]] -= k
            w.dealt_any = True

    def on_state(self, st, w, menu, ctx):
        if w is None:
            return
        if st.actor_index is not None:
            ctx.counters['round_starts_checked'] += 1
            if w.pending() and w.street == st.street_index:
                ctx.violation('actor-before-dealing-complete', f'actor {st.actor_index} while street {w.street} expects '
                              f'burn={w.burn} hole={w.hole} board={w.board} draws={w.draw}', sig=(self.prop, 'actor-before-dealing-complete'))
            if w.street != st.street_index:
                ctx.violation('street-not-dealt', f'betting on street {st.street_index} but the last dealt street is {w.street}',
                              sig=(self.prop, 'street-not-dealt'))
            for i in range(st.player_count):
                if st.statuses[i]:
                    want = [f for _, f in w.hands[i]]
                    if list(st.hole_card_statuses[i]) != want or [repr(c) for c in st.hole_cards[i]] != [c for c, _ in w.hands[i]]:
                        ctx.violation('hand-vs-dealt', f'player {i} holds {list(map(repr, st.hole_cards[i]))}/{st.hole_card_statuses[i]}, '
                                      f'dealt {w.hands[i]}', sig=(self.prop, 'hand-vs-dealt'))
                elif st.hole_cards[i]:
                    ctx.violation('folded-player-holds-cards', f'player {i}: {st.hole_cards[i]}', sig=(self.prop, 'folded-player-holds-cards'))
            # cards per street: totals prescribed by the street definitions
            n_board = sum(s.board_dealing_count for s in st.streets[:st.street_index + 1])
            if not w.ever_fb and not any(type(o).__name__ == 'RunoutCountSelection' for o in st.operations):
                exp_hole = sum(len(s.hole_dealing_statuses) for s in st.streets[:st.street_index + 1])
                fb = w.ever_fb
                for i in range(st.player_count):
                    if st.statuses[i] and len(st.hole_cards[i]) != exp_hole and not fb:
                        ctx.violation('hole-total', f'player {i} holds {len(st.hole_cards[i])} cards on street {st.street_index}, '
                                      f'street definitions prescribe {exp_hole}', sig=(self.prop, 'hole-total'))
                for b in range(st.board_count):
                    got = len(list(st.get_board_cards(b)))
                    if got != n_board and not fb:
                        ctx.violation('board-total', f'board {b} has {got} cards on street {st.street_index}, prescribed {n_board}',
                                      sig=(self.prop, 'board-total'))
