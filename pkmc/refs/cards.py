"""C06 oracle: card conservation invariant + per-operation movement monitor."""
from collections import Counter


def containers(st):
    """Snapshot of the six card containers (texts; '??' for unknown)."""
    t = repr
    return {
        'deck': [t(c) for c in st.deck_cards],
        'board': [t(c) for row in st.board_cards for c in row],
        'hole': [[t(c) for c in h] for h in st.hole_cards],
        'burn': [t(c) for c in st.burn_cards],
        'muck': [t(c) for c in st.mucked_cards],
        'disc': [[t(c) for c in d] for d in st.discarded_cards],
    }


def flat(c):
    out = list(c['deck']) + list(c['board']) + list(c['burn']) + list(c['muck'])
    for h in c['hole']:
        out += h
    for d in c['disc']:
        out += d
    return out


def reserve(c):
    out = list(c['burn']) + list(c['muck'])
    for d in c['disc']:
        out += d
    return out


class CardsMonitor:
    name = 'cards'

    def __init__(self, prop='C06'):
        self.prop = prop
        self._obj = None
        self._prev = None
        self._ev = None

    # -- plumbing
    def before_apply(self, c, ev, ctx):
        self._obj = c
        self._prev = containers(c)
        self._ev = ev

    def _viol(self, st, op, ctx, what, detail):
        path = list(ctx.path) + ([ctx.cur_event] if ctx.cur_event and ctx.cur_event[0] != '<construct>' else [])
        opn = type(op).__name__ if op is not None else 'None'
        ctx.violation(what, f'{detail} (after {opn}: {op})', path=path, sig=(self.prop, what, opn))

    def on_state(self, st, ms, menu, ctx):
        self.invariant(st, st.operations[-1] if st.operations else None, ctx, containers(st))

    def invariant(self, st, op, ctx, cur):
        allc = flat(cur)
        known = Counter(x for x in allc if x != '??')
        deck = Counter(repr(c) for c in st.deck)
        if known != deck:
            dup = sorted((known - deck).elements())
            lost = sorted((deck - known).elements())
            self._viol(st, op, ctx, 'card-accounting',
                       f'duplicated={dup[:6]} lost={lost[:6]} '
                       f'(deck {len(cur["deck"])} board {len(cur["board"])} burn {len(cur["burn"])} muck {len(cur["muck"])})')
            return False
        return True

    def on_update(self, st, op, ctx):
        cur = containers(st)
        ctx.counters['card_updates_checked'] += 1
        ok = self.invariant(st, op, ctx, cur)
        if op is None or st is not self._obj or not ok:
            self._obj, self._prev = st, cur
            return
        prev = self._prev
        name = type(op).__name__
        ev = self._ev
        explicit = False  # did the driver name the cards?
        if ctx.cur_event and len(ctx.cur_event) > 1 and isinstance(ctx.cur_event[1], str):
            explicit = True
        in_play_prev = Counter(prev['board']) + Counter(x for h in prev['hole'] for x in h)
        avail_prev = Counter(prev['deck']) + Counter(reserve(prev))
        pres, cres = reserve(prev), reserve(cur)
        replenished = False

        def need_from_deck(cards):
            nonlocal replenished
            # engine-dealt cards come from the top of the deck while it lasts
            known = [c for c in cards if c != '??']
            for c in known:
                if in_play_prev[c] > 0 and name != 'HoleCardsShowingOrMucking':
                    self._viol(st, op, ctx, 'dealt-card-in-play', f'{c} was already in play')
                if avail_prev[c] <= 0 and name != 'HoleCardsShowingOrMucking':
                    self._viol(st, op, ctx, 'dealt-card-not-available', f'{c} was not in deck/reserve')
            if len(prev['deck']) >= len(known):
                if not explicit and prev['deck'][:len(known)] != known:
                    self._viol(st, op, ctx, 'not-top-of-deck', f'dealt {known}, top was {prev["deck"][:len(known)]}')
                # no replenish allowed while the deck could cover the deal (engine-chosen cards)
                if not explicit and Counter(cres) != Counter(pres) + (Counter([known[0]]) if name == 'CardBurning' else Counter()):
                    self._viol(st, op, ctx, 'early-replenish',
                               f'reserve changed although deck ({len(prev["deck"])}) covered {len(known)} cards')
            else:
                replenished = True
                ctx.counters['replenish_seen'] += 1

        if name == 'CardBurning':
            c = repr(op.card)
            need_from_deck([c])
            if not cur['burn'] or cur['burn'][-1] != c:
                self._viol(st, op, ctx, 'burn-pile', f'burnt {c} is not on top of the burn pile {cur["burn"][-3:]}')
            if cur['hole'] != prev['hole'] or cur['board'] != prev['board']:
                self._viol(st, op, ctx, 'burn-moved-in-play', 'burn changed hole/board cards')
        elif name == 'HoleDealing':
            cards = [repr(c) for c in op.cards]
            need_from_deck(cards)
            i = op.player_index
            for j in range(st.player_count):
                exp = prev['hole'][j] + (cards if j == i else [])
                if cur['hole'][j] != exp:
                    self._viol(st, op, ctx, 'hole-dealing-target', f'player {j} holds {cur["hole"][j]}, expected {exp}')
            if cur['board'] != prev['board']:
                self._viol(st, op, ctx, 'hole-dealing-board', 'board changed')
        elif name == 'BoardDealing':
            cards = [repr(c) for c in op.cards]
            need_from_deck(cards)
            if Counter(cur['board']) != Counter(prev['board']) + Counter(cards):
                self._viol(st, op, ctx, 'board-dealing', f'board {cur["board"]} != {prev["board"]}+{cards}')
            if cur['hole'] != prev['hole']:
                self._viol(st, op, ctx, 'board-dealing-hole', 'hole cards changed')
        elif name == 'StandingPatOrDiscarding':
            cards = [repr(c) for c in op.cards]
            i = op.player_index
            if Counter(prev['hole'][i]) != Counter(cur['hole'][i]) + Counter(cards):
                self._viol(st, op, ctx, 'discard-hole', f'{prev["hole"][i]} -> {cur["hole"][i]} discarding {cards}')
            if not Counter(cards) <= Counter(prev['hole'][i]):
                self._viol(st, op, ctx, 'discard-not-held', f'{cards} not all held')
            gained = Counter(x for d in cur['disc'] for x in d) - Counter(x for d in prev['disc'] for x in d)
            if gained != Counter(cards):
                self._viol(st, op, ctx, 'discard-pile', f'discard piles gained {sorted(gained.elements())}, expected {cards}')
            if cur['deck'] != prev['deck'] or cur['muck'] != prev['muck'] or cur['burn'] != prev['burn']:
                self._viol(st, op, ctx, 'discard-other', 'deck/muck/burn changed on discard')
            else:
                exp = list(prev['hole'][i])
                for c in cards:
                    exp.remove(c)
                if cur['hole'][i] != exp:
                    self._viol(st, op, ctx, 'discard-hole-order', f'{prev["hole"][i]} -> {cur["hole"][i]} discarding {cards}: kept cards reordered')
            if cards:
                ctx.counters['discards_seen'] += 1
                if cards.count('??') >= 2 and any(c != '??' for c in prev['hole'][i]):
                    ctx.counters['discards_of_2+_unknown_cards_from_mixed_holes'] += 1
        elif name in ('Folding', 'HandKilling') or (name == 'HoleCardsShowingOrMucking' and not op.hole_cards):
            i = op.player_index
            if cur['hole'][i]:
                self._viol(st, op, ctx, 'muck-hole', f'player {i} still holds {cur["hole"][i]}')
            if Counter(cur['muck']) != Counter(prev['muck']) + Counter(prev['hole'][i]):
                self._viol(st, op, ctx, 'muck-pile', f'muck {cur["muck"]} != {prev["muck"]}+{prev["hole"][i]}')
            if cur['deck'] != prev['deck'] or cur['burn'] != prev['burn'] or cur['disc'] != prev['disc'] or cur['board'] != prev['board']:
                self._viol(st, op, ctx, 'muck-other', 'deck/burn/discards/board changed on muck')
            ctx.counters['mucks_seen'] += 1
        elif name == 'HoleCardsShowingOrMucking':
            i = op.player_index
            if '??' not in prev['hole'][i]:
                if cur != prev:
                    # a partial show may *forget* the cards kept face down (the engine does so at the final showdown): those
                    # cards, and only those, leave the hand for the undealt deck and the hand keeps unknown placeholders
                    rec = [repr(c) for c in op.hole_cards]
                    hidden = [c for c, r in zip(prev['hole'][i], rec) if r == '??']
                    ok = bool(hidden) and len(rec) == len(prev['hole'][i])
                    if ok:
                        want_hole = [c if r != '??' else '??' for c, r in zip(prev['hole'][i], rec)]
                        ok = (cur['hole'][i] == want_hole and Counter(cur['deck']) == Counter(prev['deck']) + Counter(hidden)
                              and all(cur[k] == prev[k] for k in cur if k not in ('hole', 'deck'))
                              and all(cur['hole'][j] == prev['hole'][j] for j in range(len(cur['hole'])) if j != i))
                    if ok:
                        ctx.counters['partial_shows_forgetting_hidden_cards'] += 1
                    else:
                        ch = [k for k in cur if cur[k] != prev[k]]
                        self._viol(st, op, ctx, 'show-moved-cards', f'showing known cards changed {ch}')
        else:
            if cur != prev:
                ch = [k for k in cur if cur[k] != prev[k]]
                self._viol(st, op, ctx, 'chips-op-moved-cards', f'{name} changed {ch}')
        if replenished:
            # everything reserved went back into the deck first
            pass
        if st.board_count >= 3:
            ctx.counters['states_with_3+_boards'] += 1
        self._prev = cur
