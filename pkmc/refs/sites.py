"""Renderers: a finished no-limit hold'em hand (operation log of the real State) -> text of a poker-site log.

One renderer per supported site.  Each encodes the site's layout and its *amount convention* for
raises (PokerStars: "raises <by> to <to>" with <by> counted from the current highest bet; Full Tilt:
"raises to <to>"; PartyPoker / Absolute: the chips the player adds to his own bet; Ongame: "bets <to>",
"raises <added>"; iPoker: XML with type 5 bet <to>, type 23 raise <to>).  The layout follows the
public formats of these sites; see DESIGN.md C20 for the trusted-base caveat.
Nothing here imports pokerkit; records are read by class name and attributes.
"""


def money(x, sym='$'):
    return f'{sym}{x}'


def extract(ops, n, stacks):
    """street-by-street description of the hand from the log"""
    streets = [[]]
    bets = [0] * n
    boards = []
    holes = [[] for _ in range(n)]
    shows = {}
    left = list(stacks)

    def spend(i, x):
        left[i] -= x
        return left[i] == 0          # the action puts the player all-in

    for o in ops:
        nm = type(o).__name__
        if nm == 'BlindOrStraddlePosting':
            bets[o.player_index] += o.amount
            left[o.player_index] -= o.amount
            streets[-1].append(('blind', o.player_index, o.amount))
        elif nm == 'HoleDealing':
            holes[o.player_index].extend(repr(c) for c in o.cards)
        elif nm == 'BoardDealing':
            boards.append([repr(c) for c in o.cards])
            streets.append([])
            bets = [0] * n
        elif nm == 'Folding':
            streets[-1].append(('fold', o.player_index))
        elif nm == 'CheckingOrCalling':
            mx = max(bets)
            ai = spend(o.player_index, o.amount)
            streets[-1].append(('check', o.player_index) if o.amount == 0 else ('call', o.player_index, o.amount, bets[o.player_index] + o.amount, ai))
            bets[o.player_index] += o.amount
        elif nm == 'CompletionBettingOrRaisingTo':
            mx = max(bets)
            own = bets[o.player_index]
            ai = spend(o.player_index, o.amount - own)
            streets[-1].append(('bet' if mx == 0 else 'raise', o.player_index, o.amount, o.amount - mx, o.amount - own, ai))
            bets[o.player_index] = o.amount
        elif nm == 'HoleCardsShowingOrMucking':
            cs = [repr(c) for c in o.hole_cards if c]
            shows[o.player_index] = cs if len(cs) == 2 else None
    return streets, boards, holes, shows


class Hand:
    """everything a renderer needs"""

    def __init__(self, st, names, seats, button_seat, hero, hand_no=1001, sym='$'):
        n = st.player_count
        self.n = n
        self.names = names            # by engine player index
        self.seats = seats            # by engine player index
        self.button_seat = button_seat
        self.hero = hero
        self.hand_no = hand_no
        self.sym = sym
        self.stacks = list(st.starting_stacks)
        self.final = list(st.stacks)
        self.streets, self.boards, self.holes, self.shows = extract(st.operations, n, self.stacks)
        self.won = [f - s for f, s in zip(self.final, self.stacks)]
        self.collected = [0] * n
        for o in st.operations:
            if type(o).__name__ == 'ChipsPushing':
                for i, a in enumerate(o.amounts):
                    self.collected[i] += a
        if n == 2:
            # sites list the small blind (heads-up: the button, engine seat 1) before the big blind; the engine posts seat 0 first
            blinds = sorted((a for a in self.streets[0] if a[0] == 'blind'), key=lambda a: -a[1])
            self.streets[0] = blinds + [a for a in self.streets[0] if a[0] != 'blind']
        bl = [a[2] for a in self.streets[0] if a[0] == 'blind']
        self.sb, self.bb = (min(bl), max(bl)) if len(bl) >= 2 else (bl[0], bl[0])
        self.by_seat = sorted(range(n), key=lambda i: seats[i])

    def m(self, x):
        return money(x, self.sym)


def _cards(cs, sep=' '):
    return sep.join(cs)


# ------------------------------------------------------------------------------------------- PokerStars
def pokerstars(h):
    L = [f"PokerStars Hand #{h.hand_no}:  Hold'em No Limit ({h.m(h.sb)}/{h.m(h.bb)} USD) - 2024/02/29 13:04:05 ET",
         f"Table 'Alpha II' 6-max Seat #{h.button_seat} is the button"]
    for i in h.by_seat:
        L.append(f'Seat {h.seats[i]}: {h.names[i]} ({h.m(h.stacks[i])} in chips)')
    names = h.names
    first = True
    for k, street in enumerate(h.streets):
        if k == 1:
            L.append(f'*** FLOP *** [{_cards(h.boards[0])}]')
        elif k == 2:
            L.append(f'*** TURN *** [{_cards(h.boards[0])}] [{_cards(h.boards[1])}]')
        elif k == 3:
            L.append(f'*** RIVER *** [{_cards(h.boards[0] + h.boards[1])}] [{_cards(h.boards[2])}]')
        for a in street:
            p = names[a[1]]
            if a[0] == 'blind':
                L.append(f'{p}: posts {"small" if a[2] == h.sb and h.sb != h.bb or (h.sb == h.bb and first) else "big"} blind {h.m(a[2])}')
                first = False
            elif a[0] == 'fold':
                L.append(f'{p}: folds')
            elif a[0] == 'check':
                L.append(f'{p}: checks')
            elif a[0] == 'call':
                L.append(f'{p}: calls {h.m(a[2])}' + (' and is all-in' if a[-1] else ''))
            elif a[0] == 'bet':
                L.append(f'{p}: bets {h.m(a[2])}' + (' and is all-in' if a[-1] else ''))
            elif a[0] == 'raise':
                L.append(f'{p}: raises {h.m(a[3])} to {h.m(a[2])}' + (' and is all-in' if a[-1] else ''))
        if k == 0:
            # hole cards are announced after the blinds
            idx = max((j for j, x in enumerate(L) if ': posts ' in x), default=len(L) - 1)
            L.insert(idx + 1, '*** HOLE CARDS ***')
            L.insert(idx + 2, f'Dealt to {names[h.hero]} [{_cards(h.holes[h.hero])}]')
    if h.shows:
        L.append('*** SHOW DOWN ***')
        for i, cs in h.shows.items():
            L.append(f'{names[i]}: shows [{_cards(cs)}] (a hand)' if cs else f'{names[i]}: mucks hand')
    for i in range(h.n):
        if h.collected[i]:
            L.append(f'{names[i]} collected {h.m(h.collected[i])} from pot')
    L.append('*** SUMMARY ***')
    L.append(f'Total pot {h.m(sum(h.collected))} | Rake {h.m(0)}')
    if h.boards:
        L.append(f'Board [{_cards(sum(h.boards, []))}]')
    for i in h.by_seat:
        if h.collected[i]:
            L.append(f'Seat {h.seats[i]}: {names[i]} collected ({h.m(h.collected[i])})')
        else:
            L.append(f'Seat {h.seats[i]}: {names[i]} folded or lost')
    return '\n'.join(L) + '\n\n\n\n'


# ------------------------------------------------------------------------------------------- Full Tilt
def full_tilt(h):
    L = [f"Full Tilt Poker Game #{h.hand_no}: Table Beta (6 max) - {h.m(h.sb)}/{h.m(h.bb)} - No Limit Hold'em - 13:04:05 ET - 2024/02/29"]
    for i in h.by_seat:
        L.append(f'Seat {h.seats[i]}: {h.names[i]} ({h.m(h.stacks[i])})')
    names = h.names
    for k, street in enumerate(h.streets):
        if k == 1:
            L.append(f'*** FLOP *** [{_cards(h.boards[0])}]')
        elif k == 2:
            L.append(f'*** TURN *** [{_cards(h.boards[0])}] [{_cards(h.boards[1])}]')
        elif k == 3:
            L.append(f'*** RIVER *** [{_cards(h.boards[0] + h.boards[1])}] [{_cards(h.boards[2])}]')
        nb = 0
        for a in street:
            p = names[a[1]]
            if a[0] == 'blind':
                nb += 1
                small = (a[2] == h.sb and h.sb != h.bb) or (h.sb == h.bb and nb == 1)
                L.append(f'{p} posts the {"small" if small else "big"} blind of {h.m(a[2])}')
            elif a[0] == 'fold':
                L.append(f'{p} folds')
            elif a[0] == 'check':
                L.append(f'{p} checks')
            elif a[0] == 'call':
                L.append(f'{p} calls {h.m(a[2])}' + (', and is all in' if a[-1] else ''))
            elif a[0] == 'bet':
                L.append(f'{p} bets {h.m(a[2])}' + (', and is all in' if a[-1] else ''))
            elif a[0] == 'raise':
                L.append(f'{p} raises to {h.m(a[2])}' + (', and is all in' if a[-1] else ''))
        if k == 0:
            idx = max((j for j, x in enumerate(L) if ' posts the ' in x), default=len(L) - 1)
            L.insert(idx + 1, f'The button is in seat #{h.button_seat}')
            L.insert(idx + 2, '*** HOLE CARDS ***')
            L.insert(idx + 3, f'Dealt to {names[h.hero]} [{_cards(h.holes[h.hero])}]')
    if h.shows:
        L.append('*** SHOW DOWN ***')
        for i, cs in h.shows.items():
            L.append(f'{names[i]} shows [{_cards(cs)}] a hand' if cs else f'{names[i]} mucks')
    for i in range(h.n):
        if h.collected[i]:
            L.append(f'{names[i]} wins the pot ({h.m(h.collected[i])})')
    L.append('*** SUMMARY ***')
    L.append(f'Total pot {h.m(sum(h.collected))} | Rake {h.m(0)}')
    for i in h.by_seat:
        if h.collected[i]:
            L.append(f'Seat {h.seats[i]}: {names[i]} collected ({h.m(h.collected[i])})')
        else:
            L.append(f'Seat {h.seats[i]}: {names[i]} folded or lost')
    return '\n'.join(L) + '\n\n\n\n'


# ------------------------------------------------------------------------------------------- PartyPoker
def partypoker(h):
    L = [f'Game #{h.hand_no} starts.', '',
         f'#Game No : {h.hand_no} ',
         f'***** Hand History for Game {h.hand_no} *****',
         f"{h.m(h.bb * 50)} USD NL Texas Hold'em - Thursday, February 29, 13:04:05 EST 2024",
         f'Table Gamma (Real Money)',
         f'Seat {h.button_seat} is the button',
         f'Total number of players : {h.n}/6 ']
    for i in h.by_seat:
        L.append(f'Seat {h.seats[i]}: {h.names[i]} ( {h.m(h.stacks[i])} USD )')
    names = h.names
    for k, street in enumerate(h.streets):
        if k == 1:
            L.append(f'** Dealing Flop ** [ {_cards(h.boards[0], ", ")} ]')
        elif k == 2:
            L.append(f'** Dealing Turn ** [ {_cards(h.boards[1], ", ")} ]')
        elif k == 3:
            L.append(f'** Dealing River ** [ {_cards(h.boards[2], ", ")} ]')
        nb = 0
        for a in street:
            p = names[a[1]]
            if a[0] == 'blind':
                nb += 1
                small = (a[2] == h.sb and h.sb != h.bb) or (h.sb == h.bb and nb == 1)
                L.append(f'{p} posts {"small" if small else "big"} blind [{h.m(a[2])} USD].')
            elif a[0] == 'fold':
                L.append(f'{p} folds')
            elif a[0] == 'check':
                L.append(f'{p} checks')
            elif a[-1] is True and a[0] in ('call', 'bet', 'raise'):
                added = a[2] if a[0] in ('call', 'bet') else a[4]
                L.append(f'{p} is all-In  [{h.m(added)} USD]')     # any action that empties the stack, with the chips added
            elif a[0] == 'call':
                L.append(f'{p} calls [{h.m(a[2])} USD]')
            elif a[0] == 'bet':
                L.append(f'{p} bets [{h.m(a[2])} USD]')
            elif a[0] == 'raise':
                L.append(f'{p} raises [{h.m(a[4])} USD]')          # the chips added by the raiser
        if k == 0:
            idx = max((j for j, x in enumerate(L) if ' blind [' in x), default=len(L) - 1)
            L.insert(idx + 1, '** Dealing down cards **')
            L.insert(idx + 2, f'Dealt to {names[h.hero]} [  {_cards(h.holes[h.hero])} ]')
    for i, cs in h.shows.items():
        L.append(f'{names[i]} shows [ {_cards(cs, ", ")} ]a hand.' if cs else f'{names[i]} does not show cards.')
    for i in range(h.n):
        if h.collected[i]:
            L.append(f'{names[i]} wins {h.m(h.collected[i])} USD from the main pot.')
    return '\n'.join(L) + '\n\n\n\n'


# ------------------------------------------------------------------------------------------- Absolute Poker
def absolute(h):
    L = [f'Stage #{h.hand_no}: Holdem  No Limit {h.m(h.bb)} - 2024-02-29 13:04:05 (ET)',
         f'Table: DELTA RD (Real Money) Seat #{h.button_seat} is the dealer']
    for i in h.by_seat:
        L.append(f'Seat {h.seats[i]} - {h.names[i]} ({h.m(h.stacks[i])} in chips)')
    names = h.names
    for k, street in enumerate(h.streets):
        if k == 1:
            L.append(f'*** FLOP *** [{_cards(h.boards[0])}]')
        elif k == 2:
            L.append(f'*** TURN *** [{_cards(h.boards[0])}] [{_cards(h.boards[1])}]')
        elif k == 3:
            L.append(f'*** RIVER *** [{_cards(h.boards[0] + h.boards[1])}] [{_cards(h.boards[2])}]')
        nb = 0
        for a in street:
            p = names[a[1]]
            if a[0] == 'blind':
                nb += 1
                small = (a[2] == h.sb and h.sb != h.bb) or (h.sb == h.bb and nb == 1)
                L.append(f'{p} - Posts {"small" if small else "big"} blind {h.m(a[2])}')
            elif a[0] == 'fold':
                L.append(f'{p} - Folds')
            elif a[0] == 'check':
                L.append(f'{p} - Checks')
            elif a[-1] is True and a[0] in ('call', 'bet'):
                L.append(f'{p} - All-In {h.m(a[2])}')
            elif a[-1] is True and a[0] == 'raise':
                L.append(f'{p} - All-In(Raise) {h.m(a[4])} to {h.m(a[2])}')
            elif a[0] == 'call':
                L.append(f'{p} - Calls {h.m(a[2])}')
            elif a[0] == 'bet':
                L.append(f'{p} - Bets {h.m(a[2])}')
            elif a[0] == 'raise':
                L.append(f'{p} - Raises {h.m(a[4])} to {h.m(a[2])}')          # chips added by the raiser, then the total
        if k == 0:
            L.append('*** POCKET CARDS ***') if False else None
            idx = max((j for j, x in enumerate(L) if ' - Posts ' in x), default=len(L) - 1)
            L.insert(idx + 1, '*** POCKET CARDS ***')
    if h.shows:
        L.append('*** SHOW DOWN ***')
        for i, cs in h.shows.items():
            L.append(f'{names[i]} - Shows [{_cards(cs)}] (a hand)' if cs else f'{names[i]} - Mucks')
    for i in range(h.n):
        if h.collected[i]:
            L.append(f'{names[i]} Collects {h.m(h.collected[i])} from main pot')
    L.append('*** SUMMARY ***')
    L.append(f'Total Pot({h.m(sum(h.collected))})')
    for i in h.by_seat:
        if h.collected[i]:
            L.append(f'Seat {h.seats[i]}: {names[i]} collected Total ({h.m(h.collected[i])})')
        else:
            L.append(f'Seat {h.seats[i]}: {names[i]} Folded or lost')
    return '\n'.join(L) + '\n\n\n\n'


# ------------------------------------------------------------------------------------------- Ongame
def ongame(h):
    L = [f'***** History for hand R5-{h.hand_no}-7 *****',
         'Start hand: Thu Feb 29 13:04:05 GMT+0100 2024',
         f'Table: Epsilon [1234567] (NO_LIMIT TEXAS_HOLDEM {h.m(h.sb)}/{h.m(h.bb)}, Real money)',
         'User: ' + h.names[h.hero],
         f'Button: seat {h.button_seat}',
         'Players in round: ' + str(h.n)]
    for i in h.by_seat:
        # the importer tells seat lines from summary lines by the character after ')' (not a comma): seat lines carry a trailing blank
        L.append(f'Seat {h.seats[i]}: {h.names[i]} ({h.m(h.stacks[i])}) ')
    names = h.names
    for k, street in enumerate(h.streets):
        if k == 1:
            L.append(f'--- Dealing flop [{_cards(h.boards[0], ", ")}]')
        elif k == 2:
            L.append(f'--- Dealing turn [{_cards(h.boards[1], ", ")}]')
        elif k == 3:
            L.append(f'--- Dealing river [{_cards(h.boards[2], ", ")}]')
        nb = 0
        for a in street:
            p = names[a[1]]
            if a[0] == 'blind':
                nb += 1
                small = (a[2] == h.sb and h.sb != h.bb) or (h.sb == h.bb and nb == 1)
                L.append(f'{p} posts {"small" if small else "big"} blind ({h.m(a[2])})')
            elif a[0] == 'fold':
                L.append(f'{p} folds')
            elif a[0] == 'check':
                L.append(f'{p} checks')
            elif a[0] == 'call':
                L.append(f'{p} calls {h.m(a[2])}')
            elif a[0] == 'bet':
                L.append(f'{p} bets {h.m(a[2])}')
            elif a[0] == 'raise':
                L.append(f'{p} raises {h.m(a[4])} to {h.m(a[2])}')      # chips added, then total
        if k == 0:
            idx = max((j for j, x in enumerate(L) if ' blind (' in x), default=len(L) - 1)
            L.insert(idx + 1, '---')
            L.insert(idx + 2, f'Dealing pocket cards')
            L.insert(idx + 3, f'Dealing to {names[h.hero]}: [{_cards(h.holes[h.hero], ", ")}]')
    L.append('---')
    L.append('Summary:')
    for i in range(h.n):
        if h.collected[i]:
            L.append(f'Main pot: {h.m(sum(h.collected))} won by {names[i]} ({h.m(h.collected[i])})')
    L.append('Rake taken: ' + h.m(0))
    for i in h.by_seat:
        net = h.won[i]
        sign = '+' if net >= 0 else '-'
        tail = ''
        cs = h.shows.get(i)
        if cs:
            tail = f', [{_cards(cs, ", ")}] (a hand)'
        L.append(f'Seat {h.seats[i]}: {names[i]} ({h.m(h.final[i])}), net: {sign}{h.m(abs(net))}{tail}')
    L.append(f'***** End of hand R5-{h.hand_no}-7 *****')
    return '\n'.join(L) + '\n\n\n\n'


# ------------------------------------------------------------------------------------------- iPoker (XML)
def _ip_card(c):
    r = c[0].replace('T', '10')
    return c[1] + r          # suit letter first (lower case, as the importer's card pattern expects), then the rank with 10 for T


def ipoker(h):
    L = ['<?xml version="1.0" encoding="utf-8"?>', '<session sessioncode="99">', '<general>', '<mode>real</mode>',
         "<gametype>Holdem NL $1/$2</gametype>", '<tablename>Zeta, 12345</tablename>', '<currency>USD</currency>',
         f'<nickname>{h.names[h.hero]}</nickname>', '</general>',
         f'<game gamecode="{h.hand_no}">', '<general>', '<startdate>2024-02-29 13:04:05</startdate>', '<players>']
    for i in h.by_seat:
        L.append(f'<player seat="{h.seats[i]}" name="{h.names[i]}" chips="{h.m(h.stacks[i])}" dealer="{1 if h.seats[i] == h.button_seat else 0}" '
                 f'win="{h.m(h.collected[i])}" bet="{h.m(h.stacks[i] - h.final[i] + h.collected[i])}" />')
    L += ['</players>', '</general>']
    no = 0
    for k, street in enumerate(h.streets):
        L.append(f'<round no="{k if k == 0 else k + 1}">') if k != 0 else L.append('<round no="0">')
        if k >= 1:
            typ = {1: 'Flop', 2: 'Turn', 3: 'River'}[k]
            L.append(f'<cards type="{typ}" player="">{" ".join(_ip_card(c) for c in h.boards[k - 1])}</cards>')
        acts = [a for a in street if a[0] != 'blind'] if k == 0 else street
        blinds = [a for a in street if a[0] == 'blind']
        nb = 0
        for a in blinds:
            no += 1
            nb += 1
            small = (a[2] == h.sb and h.sb != h.bb) or (h.sb == h.bb and nb == 1)
            L.append(f'<action no="{no}" player="{h.names[a[1]]}" type="{1 if small else 2}" sum="{h.m(a[2])}" cards="" />')
        if k == 0:
            L.append('</round>')
            L.append('<round no="1">')
            for i in h.by_seat:
                cs = h.holes[i] if (i == h.hero or h.shows.get(i)) else None
                L.append(f'<cards type="Pocket" player="{h.names[i]}">{" ".join(_ip_card(c) for c in cs) if cs else "X X"}</cards>')
        for a in acts:
            no += 1
            p = h.names[a[1]]
            if a[0] == 'fold':
                L.append(f'<action no="{no}" player="{p}" type="0" sum="{h.m(0)}" cards="" />')
            elif a[0] == 'check':
                L.append(f'<action no="{no}" player="{p}" type="4" sum="{h.m(0)}" cards="" />')
            elif a[0] == 'call':
                L.append(f'<action no="{no}" player="{p}" type="3" sum="{h.m(a[2])}" cards="" />')
            elif a[0] == 'bet':
                L.append(f'<action no="{no}" player="{p}" type="5" sum="{h.m(a[2])}" cards="" />')
            elif a[0] == 'raise':
                if h.hand_no % 2:
                    L.append(f'<action no="{no}" player="{p}" type="23" sum="{h.m(a[2])}" cards="" />')
                else:
                    # the other raise record of the format: the amount added on top of the raiser's own bet of this round
                    L.append(f'<action no="{no}" player="{p}" type="6" sum="{h.m(a[4])}" cards="" />')
        L.append('</round>')
    L += ['</game>', '</session>']
    return '\n'.join(L) + '\n'


RENDER = {'pokerstars': pokerstars, 'full_tilt_poker': full_tilt, 'partypoker': partypoker, 'absolute_poker': absolute,
          'ongame_network': ongame, 'ipoker_network': ipoker}
