"""C03 / C11 oracle: an independent statement of the betting rules, kept as a
monitor that is stepped in lock-step with the implementation (product automaton).

``Round`` is one betting round.  It answers, per candidate action,
must-accept / must-refuse / undetermined (see DESIGN.md C03).
"""

BETTING_OPS = ('Folding', 'CheckingOrCalling', 'BringInPosting', 'CompletionBettingOrRaisingTo')
DEALING_OPS = ('CardBurning', 'HoleDealing', 'BoardDealing', 'StandingPatOrDiscarding')


class Round:
    __slots__ = ('n', 'structure', 'tournament', 'street_min', 'cap', 'live', 'stack', 'bet',
                 'pot_before', 'opener', 'bring_in', 'bring_in_pending', 'completion_pending',
                 'owes', 'largest_raise', 'raises', 'level_at_last_action',
                 'short_allins_since_full', 'acted_since_full', 'over', 'street', 'card_based')

    def __init__(self, n, structure, tournament, street_min, cap, live, stack, bet,
                 pot_before, opener, bring_in=0, street=0):
        self.n = n
        self.structure = structure        # 'FL' | 'PL' | 'NL'
        self.tournament = tournament
        self.street_min = street_min
        self.cap = cap
        self.live = list(live)
        self.stack = list(stack)
        self.bet = list(bet)
        self.pot_before = pot_before      # chips already collected (all pots incl. antes)
        self.opener = opener
        self.card_based = False
        self.bring_in = bring_in          # > 0 only on the first stud street
        self.street = street
        self.bring_in_pending = False
        self.completion_pending = False
        self.owes = []                    # seats that still owe a response, in clockwise order
        self.largest_raise = 0
        self.raises = 0
        self.level_at_last_action = {}    # seat -> max bet when it last acted voluntarily
        self.short_allins_since_full = 0  # cumulative size of consecutive all-in raises
        self.acted_since_full = set()
        self.over = False

    def copy(self):
        r = Round.__new__(Round)
        for a in Round.__slots__:
            v = getattr(self, a)
            if isinstance(v, list):
                v = list(v)
            elif isinstance(v, dict):
                v = dict(v)
            elif isinstance(v, set):
                v = set(v)
            setattr(r, a, v)
        return r

    def key(self):
        return (self.street, tuple(self.live), tuple(self.stack), tuple(self.bet), self.bring_in_pending,
                self.completion_pending, tuple(self.owes), self.largest_raise, self.raises,
                tuple(sorted(self.level_at_last_action.items())), self.short_allins_since_full,
                tuple(sorted(self.acted_since_full)), self.over)

    # ------------------------------------------------------------------
    def start(self):
        self.bring_in_pending = self.bring_in > 0
        self.completion_pending = self.bring_in_pending
        able = [i for i in self._clockwise_from(self.opener) if self._can_act_at_start(i)]
        self.owes = able
        if len(able) == 1 and self.bet[able[0]] >= max(self.bet):
            self.owes = []
        self._check_over()
        return self

    def _clockwise_from(self, s):
        return [(s + k) % self.n for k in range(self.n)]

    def _can_act_at_start(self, i):
        if not self.live[i] or self.stack[i] == 0:
            return False
        others = [self.stack[j] + self.bet[j] for j in range(self.n) if j != i and self.live[j]]
        return bool(others) and max(others) > self.bet[i]

    def _check_over(self):
        if not self.owes or sum(self.live) <= 1:
            self.over = True
            self.owes = []

    @property
    def actor(self):
        return None if self.over else self.owes[0]

    # --- legality -------------------------------------------------------
    def fold_legal(self):
        a = self.actor
        if a is None or self.bring_in_pending:
            return 'refuse'
        if self.bet[a] < max(self.bet):
            return 'accept'
        return 'refuse' if self.tournament else 'warn'

    def call_legal(self):
        return 'refuse' if (self.actor is None or self.bring_in_pending) else 'accept'

    def call_amount(self):
        a = self.actor
        return min(self.stack[a], max(self.bet) - self.bet[a])

    def bring_in_legal(self):
        return 'accept' if (self.actor is not None and self.bring_in_pending) else 'refuse'

    def raise_window(self):
        """None: raising must be refused; 'undet': the two formulations of the short-all-in rule
        disagree; else (lo_hard, lo_soft, hi):  x < lo_soft or x > hi must be refused,
        x >= lo_hard (or x == actor's all-in within [lo_soft, hi]) must be accepted,
        other x in [lo_soft, lo_hard) are the effective-stack band (undetermined)."""
        a = self.actor
        if a is None:
            return None
        mb = max(self.bet)
        if self.cap is not None and self.raises >= self.cap:
            return None
        if self.stack[a] <= mb - self.bet[a]:
            return None
        if not any(j != a and self.live[j] and self.stack[j] + self.bet[j] > mb for j in range(self.n)):
            return None
        if a in self.level_at_last_action and self.short_allins_since_full > 0:
            faced = mb - self.level_at_last_action[a]
            per_player_block = faced < self.largest_raise
            cumulative_block = (self.short_allins_since_full < self.largest_raise
                                and a in self.acted_since_full)
            if per_player_block and cumulative_block:
                return None
            if per_player_block != cumulative_block:
                return 'undet'
        nominal = max(self.largest_raise, self.street_min) + (0 if self.completion_pending else mb)
        allin = self.stack[a] + self.bet[a]
        others_max = max(self.stack[j] + self.bet[j] for j in range(self.n) if j != a and self.live[j])
        eff_cap = min(allin, max(others_max, self.bet[a]))
        lo_hard = min(nominal, allin)
        lo_soft = min(nominal, eff_cap)
        if self.structure == 'NL':
            hi = allin
        elif self.structure == 'FL':
            hi = lo_hard            # exactly the minimum (or all-in for less)
        else:
            potraise = 2 * mb - self.bet[a] + self.pot_before + sum(self.bet)
            hi = min(allin, max(lo_soft, potraise))
        return lo_hard, lo_soft, hi

    def verdict(self, x):
        """'accept' | 'refuse' | 'undet' for raise-to x."""
        w = self.raise_window()
        if w is None:
            return 'refuse'
        if w == 'undet':
            return 'undet'
        lo_hard, lo_soft, hi = w
        a = self.actor
        allin = self.stack[a] + self.bet[a]
        if self.structure == 'FL':
            # exactly the minimum; when the others cannot cover it the engine's minimum is the
            # effective amount and the nominal one is not offered: that band is undetermined
            if lo_soft == lo_hard:
                return 'accept' if x == lo_hard else 'refuse'
            if x < lo_soft or x > lo_hard:
                return 'refuse'
            return 'undet'
        if x < lo_soft or x > hi:
            return 'refuse'
        if x >= lo_hard or x == allin:
            return 'accept'
        return 'undet'

    # --- transitions ------------------------------------------------------
    def _advance(self, a):
        self.owes.pop(0)
        self.level_at_last_action[a] = max(self.bet)
        self.acted_since_full.add(a)
        self._check_over()

    def fold(self):
        a = self.actor
        self.live[a] = False
        self._advance(a)

    def call(self):
        a = self.actor
        amt = self.call_amount()
        self.bet[a] += amt
        self.stack[a] -= amt
        self._advance(a)

    def post_bring_in(self):
        a = self.actor
        amt = min(self.stack[a], self.bring_in)
        self.bet[a] += amt
        self.stack[a] -= amt
        self.bring_in_pending = False
        self._advance(a)

    def raise_to(self, x):
        a = self.actor
        mb = max(self.bet)
        inc = x - mb
        self.stack[a] -= x - self.bet[a]
        self.bet[a] = x
        self.bring_in_pending = False
        self.completion_pending = False
        full = inc >= self.largest_raise
        if full:
            self.acted_since_full = set()
        self.largest_raise = max(self.largest_raise, inc)
        self.raises += 1
        if self.stack[a] > 0:
            self.short_allins_since_full = 0
        else:
            self.short_allins_since_full += inc
        self.owes = [i for i in self._clockwise_from(a)[1:] if self.live[i] and self.stack[i] > 0]
        self.level_at_last_action[a] = x
        self.acted_since_full.add(a)
        self.over = False
        self._check_over()

    def step(self, ev):
        op = ev[0]
        if op == 'fold':
            self.fold()
        elif op == 'check_or_call':
            self.call()
        elif op == 'post_bring_in':
            self.post_bring_in()
        elif op == 'complete_bet_or_raise_to':
            x = ev[1] if len(ev) > 1 else None
            if x is None:
                w = self.raise_window()
                x = w[1] if isinstance(w, tuple) else max(self.bet)
            self.raise_to(x)


STRUCT = {'Fixed-limit': 'FL', 'Pot-limit': 'PL', 'No-limit': 'NL'}


def position_opener(n, blinds, first_street):
    """Seat opening a round of a button game (layout-based, no bets consulted)."""
    if not first_street or not any(b > 0 for b in blinds):
        return 0
    best = max((b, r) for r, b in enumerate(blinds) if b > 0)
    r = best[1]
    seat = (1 - r) if n == 2 else r          # heads-up: blinds are posted reversed
    return (seat + 1) % n


class Spec:
    """What the reference needs to know about the game - either read from the state's own
    configuration (C03) or from an independent variant table (C11)."""

    def __init__(self, structure, street_mins, caps, bring_in, openings):
        self.structure = structure
        self.street_mins = street_mins
        self.caps = caps
        self.bring_in = bring_in
        self.openings = openings

    @classmethod
    def of_state(cls, st):
        return cls(STRUCT[st.betting_structure.value],
                   [s.min_completion_betting_or_raising_amount for s in st.streets],
                   [s.max_completion_betting_or_raising_count for s in st.streets],
                   st.bring_in, [s.opening.name for s in st.streets])


class BettingMonitor:
    """Lock-step comparison of the implementation with Round."""
    name = 'betting'

    def __init__(self, prop='C03', spec=None, amounts_extra=2):
        self.prop = prop
        self.spec = spec
        self.extra = amounts_extra
        self._starts = []
        self._after = None
        self._obj = None

    def _spec(self, st):
        return self.spec or Spec.of_state(st)

    # -- capture points inside cascades
    def before_apply(self, c, ev, ctx):
        self._starts = []
        self._after = None
        self._obj = c

    def on_update(self, st, op, ctx):
        if op is None:
            return
        if st is not self._obj:
            self._obj = st
            self._starts = []
            self._after = None
        name = type(op).__name__
        if name in DEALING_OPS:
            if (not st.card_burning_status and not any(st.hole_dealing_statuses)
                    and not any(st.board_dealing_counts) and not any(st.standing_pat_or_discarding_statuses)):
                self._starts.append(self._new_round(st))
        elif name in BETTING_OPS:
            self._after = (list(st.stacks), list(st.bets), list(st.statuses), op)

    def _new_round(self, st):
        sp = self._spec(st)
        si = st.street_index
        n = st.player_count
        opening = sp.openings[si]
        if opening == 'POSITION':
            opener = position_opener(n, st.blinds_or_straddles, si == 0)
        else:
            # card-based: from the cards showing (players out of the hand show nothing); when a card is unknown the
            # designee is read lazily from the implementation (C13 decides those)
            from .opener import card_opener
            ups = [[repr(c) for c in st.get_up_cards(i)] if st.statuses[i] else [] for i in range(n)]
            opener = card_opener(opening, ups)
        pot_before = sum(st.starting_stacks) - sum(st.stacks) - sum(st.bets)
        r = Round(n, sp.structure, st.mode.value == 'Tournament', sp.street_mins[si], sp.caps[si],
                  st.statuses, st.stacks, st.bets, pot_before, opener,
                  sp.bring_in if si == 0 else 0, street=si)
        r.card_based = opening != 'POSITION'
        return r

    def init(self, st, ctx):
        rounds = self._starts
        self._starts = []
        return self._settle(None, rounds, st, ctx)

    def key(self, ms):
        return None if ms is None else ms.key()

    def _viol(self, ctx, what, detail, path=None):
        ctx.violation(what, detail, path=path, sig=(self.prop, what))

    def _settle(self, cur, starts, post, ctx, path=None):
        """After a driver event: starts = rounds whose dealing completed during the cascade."""
        for k, r in enumerate(starts):
            if r.opener is None:
                # card-based opener: read the implementation's designee when it stopped in this round
                if post.street_index == r.street and post.opener_index is not None and k == len(starts) - 1:
                    r.opener = post.opener_index
                else:
                    r.opener = 0
                    # a round the implementation ran through: only 'over or not' matters, independent of opener
            elif r.card_based:
                ctx.counters['card_openers_from_reference'] += 1
                if not r.stack[r.opener] and sum(1 for i in range(r.n) if r.live[i] and r.stack[i]) >= 2:
                    ctx.counters['card_designee_all_in_with_betting_left'] += 1
            r.start()
            if k < len(starts) - 1 and not r.over:
                self._viol(ctx, 'round-skipped', f'street {r.street}: reference says seat {r.actor} must act '
                           f'(stacks {r.stack}, bets {r.bet}, live {r.live}) but the engine went on', path)
            cur = r
            ctx.counters['rounds_started'] += 1
        return cur

    def on_edge(self, pre, ms, ev, post, rec, ctx):
        path = list(ctx.path) + [ev]
        cur = ms.copy() if ms is not None else None
        if ev[0] in ('fold', 'check_or_call', 'post_bring_in', 'complete_bet_or_raise_to'):
            if cur is None or cur.over:
                self._viol(ctx, 'action-without-round', f'{ev} accepted but the reference has no actor', path)
                return None
            x = ev
            if ev[0] == 'complete_bet_or_raise_to':
                x = (ev[0], rec.amount)
            if ev[0] == 'check_or_call' and rec.amount != cur.call_amount():
                self._viol(ctx, 'call-amount', f'called {rec.amount}, reference {cur.call_amount()}', path)
            if rec.player_index != cur.actor:
                self._viol(ctx, 'actor-record', f'{rec} but reference actor {cur.actor}', path)
            cur.step(x)
            ctx.counters['betting_steps_compared'] += 1
            if self._after is not None:
                stacks, bets, statuses, _ = self._after
                if stacks != cur.stack or bets != cur.bet or [bool(s) for s in statuses] != [bool(s) for s in cur.live]:
                    self._viol(ctx, 'after-action', f'after {ev}: engine stacks/bets/live {stacks}/{bets}/{statuses} '
                               f'reference {cur.stack}/{cur.bet}/{cur.live}', path)
        starts = self._starts
        self._starts = []
        if starts and cur is not None and not cur.over:
            self._viol(ctx, 'round-cut-short', f'street {cur.street}: reference still waits for seat {cur.actor} '
                       f'but the engine dealt on', path)
        cur = self._settle(cur, starts, post, ctx, path)
        return cur

    # -- per state comparison ------------------------------------------------
    def on_state(self, st, r, menu, ctx):
        ref_actor = None if (r is None or r.over) else r.actor
        if st.actor_index != ref_actor:
            self._viol(ctx, 'actor', f'engine actor {st.actor_index}, reference {ref_actor} '
                       f'(stacks {st.stacks} bets {st.bets} live {st.statuses}, street {st.street_index})')
            return
        if ref_actor is None:
            return
        ctx.counters['decisions_compared'] += 1
        warn_err = ctx.job.get('warn') == 'error'
        f = r.fold_legal()
        got = st.can_fold()
        exp = f == 'accept' or (f == 'warn' and not warn_err)
        if got != exp:
            self._viol(ctx, 'fold', f'can_fold()={got}, reference {f} (bets {st.bets}, actor {ref_actor})')
        if st.can_check_or_call() != (r.call_legal() == 'accept'):
            self._viol(ctx, 'check-call', f'can_check_or_call()={st.can_check_or_call()}, reference {r.call_legal()}')
        elif st.can_check_or_call() and st.checking_or_calling_amount != r.call_amount():
            self._viol(ctx, 'call-amount', f'checking_or_calling_amount={st.checking_or_calling_amount}, reference {r.call_amount()}')
        if st.can_post_bring_in() != (r.bring_in_legal() == 'accept'):
            self._viol(ctx, 'bring-in', f'can_post_bring_in()={st.can_post_bring_in()}, reference {r.bring_in_legal()}')
        elif st.can_post_bring_in() and st.effective_bring_in_amount != min(r.stack[ref_actor], r.bring_in):
            self._viol(ctx, 'bring-in-amount', f'{st.effective_bring_in_amount} vs {min(r.stack[ref_actor], r.bring_in)}')
        w = r.raise_window()
        top = max(s + b for s, b in zip(st.stacks, st.bets)) + self.extra
        if w == 'undet':
            ctx.counters['undetermined_short_allin_states'] += 1
        for x in [None] + list(range(0, top + 1)):
            got = st.can_complete_bet_or_raise_to(x)
            ctx.counters['amounts_compared'] += 1
            if x is None:
                v = 'refuse' if w is None else ('undet' if w == 'undet' else 'accept')
            else:
                v = r.verdict(x)
            if v == 'undet':
                ctx.counters['undetermined_amounts'] += 1
                continue
            if got != (v == 'accept'):
                self._viol(ctx, 'raise-' + ('accepted' if got else 'refused'),
                           f'raise-to {x}: engine {"accepts" if got else "refuses"}, rules say {v}; window(lo_hard, lo_soft, hi)={w}; '
                           f'actor {ref_actor} stacks {st.stacks} bets {st.bets} live {st.statuses} structure {r.structure} '
                           f'largest raise {r.largest_raise} raises {r.raises}/{r.cap}')
                break
        if isinstance(w, tuple):
            lo = st.min_completion_betting_or_raising_to_amount
            hi = st.max_completion_betting_or_raising_to_amount
            if lo is None or hi is None:
                return
            if hi != w[2] and r.structure != 'FL':
                self._viol(ctx, 'max-amount', f'max raise-to {hi}, reference {w[2]}')
            if not (w[1] <= lo <= w[0]):
                self._viol(ctx, 'min-amount', f'min raise-to {lo}, reference band [{w[1]}, {w[0]}]')
            nominal = max(r.largest_raise, r.street_min) + (0 if r.completion_pending else max(r.bet))
            if st.stacks[ref_actor] + st.bets[ref_actor] < nominal:
                ctx.counters['all_in_for_less_states'] += 1
            if r.short_allins_since_full:
                ctx.counters['states_after_short_all_in'] += 1
        elif w is None:
            ctx.counters['raise_refused_states'] += 1
            if r.cap is not None and r.raises >= r.cap:
                ctx.counters['cap_reached_states'] += 1
