"""Explicit-state exploration of the real pokerkit.State.

Each transition calls the real method on a clone of the real object; states are
deduplicated by canon.key (+ monitor keys).  Monitors are lock-step reference
models / invariant checkers:

    class Monitor:
        name = '...'
        def init(self, st, ctx) -> mstate          # per-node monitor state (or None)
        def key(self, ms) -> hashable              # contribution to the state key
        def on_update(self, st, op, ctx)           # after every logged operation (cascades incl.)
        def on_state(self, st, ms, menu, ctx)      # invariant at every explored state
        def on_edge(self, pre, ms, ev, post, rec, ctx) -> mstate'   # after a successful transition
        def on_error(self, pre, ms, ev, exc, ctx)  # a menu event raised
"""
import time
import traceback
import os
from collections import Counter, deque

from . import env, canon, configs
from .alphabet import legal_menu, apply, DEFAULT_OPTS


class Ctx:
    """Per-job context handed to monitors."""

    def __init__(self, cfg, job=None):
        self.cfg = cfg
        self.job = job or {}
        self.violations = []
        self.counters = Counter()
        self.errors = Counter()      # exceptions raised by menu events, by signature
        self.error_examples = {}
        self.samples = []
        self.path = ()               # event path of the node being expanded
        self.cur_event = None
        self.outcomes = set()
        self.max_violations = 25

    def violation(self, oracle, detail, path=None, sig=None, extra=None):
        if len(self.violations) >= self.max_violations:
            self.counters['violations_dropped'] += 1
            return
        p = list(self.path if path is None else path)
        v = {'oracle': oracle, 'detail': detail, 'cfg': self.cfg,
             'events': [list(e) for e in p], 'sig': sig or oracle}
        if extra:
            v.update(extra)
        self.violations.append(v)

    def count(self, name, k=1):
        self.counters[name] += k


def exc_signature(exc):
    """(type, function, source line) of the innermost pokerkit frame."""
    tb = traceback.extract_tb(exc.__traceback__)
    site = None
    for fr in tb:
        if os.sep + 'pokerkit' + os.sep in fr.filename:
            site = fr
    if site is None:
        return (type(exc).__name__, '?', str(exc)[:60])
    return (type(exc).__name__, site.name, (site.line or '').strip())


def guarded(f, ctx, *a):
    """Call a monitor hook; a crash of the monitor after it already reported a violation on this
    job is a consequence of the implementation misbehaving, not a harness failure."""
    try:
        return f(*a)
    except Exception:
        if ctx.violations:
            ctx.counters['monitor_crash_after_violation'] += 1
            return None
        raise


def had_unfaced_fold(st):
    """Did some player fold without facing a bet (cash games: accepted with a warning)?"""
    n = st.player_count
    bets = [0] * n
    for o in st.operations:
        nm = type(o).__name__
        if nm in ('BlindOrStraddlePosting', 'BringInPosting', 'CheckingOrCalling', 'AntePosting'):
            bets[o.player_index] += o.amount
        elif nm == 'CompletionBettingOrRaisingTo':
            bets[o.player_index] = o.amount
        elif nm == 'BetCollection':
            bets = [0] * n
        elif nm == 'Folding':
            if bets[o.player_index] >= max(bets):
                return True
    return False


def error_shape(cfg, path, pre=None, ev=None):
    """Abstract shape of the history an exception occurred on (used in finding signatures, so that a
    known defect only matches the kind of input it was found on)."""
    from .configs import autos_of
    flags = []
    for ev in path:
        if ev[0] == 'show_or_muck_hole_cards' and len(ev) > 1 and ev[1] is False:
            flags.append('after-muck')
            break
    try:
        au = {a.name for a in autos_of(cfg.get('autos'))}
    except Exception:
        au = set()
    if 'CARD_BURNING' not in au:
        # which dealing loop can be re-entered: the known re-entrancy defect lives in the hole-dealing loop
        if 'HOLE_DEALING' in au:
            flags.append('hole-dealing-automated-burning-manual')
        elif 'BOARD_DEALING' in au:
            flags.append('board-dealing-automated-burning-manual')
    if pre is not None:
        unfaced = had_unfaced_fold(pre)
        if not unfaced and ev is not None and ev[0] == 'fold' and pre.actor_index is not None:
            a = pre.actor_index
            unfaced = pre.bets[a] >= max(pre.bets)
        if unfaced:
            flags.append('after-unfaced-fold')
    return '+'.join(flags) or 'plain'


class ErrorsMonitor:
    """A menu event (the query said yes) that raises defeats whatever the property promises about it; histories of
    the shapes covered by the C07 known findings are not judged here."""
    name = 'errors'

    def __init__(self, prop, ops=None):
        self.prop = prop
        self.ops = ops

    def on_menu_error(self, st, ms, exc, ctx):
        query_raised(self.prop, st, exc, ctx)

    def on_error(self, pre, ms, ev, exc, ctx):
        shape = error_shape(ctx.cfg, list(ctx.path) + [ev], pre, ev)
        if shape != 'plain':
            ctx.counters['exceptions_on_known_shapes_not_judged'] += 1
            return
        if self.ops and ev[0] not in self.ops:
            ctx.counters['exceptions_of_other_operations_not_judged'] += 1
            return
        sig = exc_signature(exc)
        ctx.violation('operation-raised', f'{ev} raised {type(exc).__name__}: {exc} at {sig[1]}: {sig[2]}',
                      path=list(ctx.path) + [ev], sig=(self.prop, 'raised') + sig + (shape,))


def query_raised(prop, st, exc, ctx):
    sig = exc_signature(exc)
    shape = error_shape(ctx.cfg, list(ctx.path), st, None)
    ctx.violation('query-raised', f'an availability query raised {type(exc).__name__}: {exc} at {sig[1]}: {sig[2]}',
                  path=list(ctx.path), sig=(prop, 'query-raised') + sig + (shape,))


class Node:
    __slots__ = ('st', 'ms', 'nid', 'depth', 'devs')

    def __init__(self, st, ms, nid, depth, devs):
        self.st, self.ms, self.nid, self.depth, self.devs = st, ms, nid, depth, devs


def path_of(parents, nid):
    p = []
    while nid is not None:
        par, ev = parents[nid]
        if ev is not None:
            p.append(ev)
        nid = par
    p.reverse()
    return p


def explore(cfg, monitors=(), menu=None, menu_opts=None, dev_bound=None,
            state_cap=None, time_cap=None, clone=None, job=None, ctx=None,
            merge=True, build=None, on_build_error=None, sample_every=0,
            record_edges=False):
    """Explore one configuration.  Returns (stats dict, ctx)."""
    clone = clone or canon.clone
    o = menu_opts or DEFAULT_OPTS
    menu = menu or (lambda st, node: legal_menu(st, o))
    ctx = ctx or Ctx(cfg, job)
    t0 = time.time()
    stats = {'states': 0, 'transitions': 0, 'terminals': 0, 'max_depth': 0,
             'capped': False, 'deadlocks': 0, 'built': True, 'pruned_errors': 0,
             'revisits': 0}

    def upd(st, op):
        for m in monitors:
            f = getattr(m, 'on_update', None)
            if f:
                guarded(f, ctx, st, op, ctx)

    with env.observe(upd):
        ctx.path = ()
        ctx.cur_event = ('<construct>',)
        try:
            st0 = (build or configs.build)(cfg)
        except Exception as exc:  # constructor failed
            stats['built'] = False
            stats['build_error'] = exc_signature(exc)
            if on_build_error:
                on_build_error(exc, ctx)
            stats['wall_s'] = time.time() - t0
            return stats, ctx
        ms0 = tuple(m.init(st0, ctx) if hasattr(m, 'init') else None for m in monitors)

        def fullkey(st, ms):
            k = canon.key(st)
            for m, x in zip(monitors, ms):
                if x is not None and hasattr(m, 'key'):
                    k += (m.key(x),)
            return k

        parents = {0: (None, None)}
        edges = [] if record_edges else None
        kid = {}
        seen = {fullkey(st0, ms0): 0} if merge else None
        if record_edges:
            kid[fullkey(st0, ms0)] = 0
            node_kid = {0: 0}
        frontier = deque([Node(st0, ms0, 0, 0, 0)])
        nid_counter = 1
        stats['states'] = 1
        while frontier:
            node = frontier.popleft()
            st = node.st
            ctx.path = path_of(parents, node.nid)
            ctx.cur_event = None
            if node.depth > stats['max_depth']:
                stats['max_depth'] = node.depth
            try:
                evs = menu(st, node)
            except Exception as exc:
                # a default-argument query (can_*) raised while the menu was computed: the state cannot be expanded.
                # Monitors that judge queries report it; otherwise it is a harness-level failure (sx.run raises).
                sig = exc_signature(exc)
                ctx.errors[sig] += 1
                stats['pruned_errors'] += 1
                handled = False
                for m, x in zip(monitors, node.ms):
                    f = getattr(m, 'on_menu_error', None)
                    if f:
                        f(st, x, exc, ctx)
                        handled = True
                if not handled:
                    ctx.counters['unhandled_menu_errors'] += 1
                    ctx.menu_error = (sig, list(ctx.path))
                continue
            for m, x in zip(monitors, node.ms):
                f = getattr(m, 'on_state', None)
                if f:
                    guarded(f, ctx, st, x, evs, ctx)
            if not evs:
                stats['terminals'] += 1
                if st.status:
                    stats['deadlocks'] += 1
                    for m, x in zip(monitors, node.ms):
                        f = getattr(m, 'on_deadlock', None)
                        if f:
                            f(st, x, ctx)
                else:
                    ctx.outcomes.add(tuple(st.payoffs))
                    for m, x in zip(monitors, node.ms):
                        f = getattr(m, 'on_terminal', None)
                        if f:
                            f(st, x, ctx)
                    if sample_every:
                        ctx.samples[:] = [[list(e) for e in ctx.path]]
                continue
            for ev, cost in evs:
                if dev_bound is not None and node.devs + cost > dev_bound:
                    ctx.counters['cut_by_deviation_bound'] += 1
                    continue
                c = clone(st)
                ctx.cur_event = ev
                ctx.node_ms = node.ms
                for m in monitors:
                    f = getattr(m, 'before_apply', None)
                    if f:
                        f(c, ev, ctx)
                try:
                    rec = apply(c, ev)
                except Exception as exc:
                    sig = exc_signature(exc)
                    ctx.errors[sig] += 1
                    if sig not in ctx.error_examples:
                        ctx.error_examples[sig] = [list(e) for e in ctx.path] + [list(ev)]
                    stats['pruned_errors'] += 1
                    for m, x in zip(monitors, node.ms):
                        f = getattr(m, 'on_error', None)
                        if f:
                            f(st, x, ev, exc, ctx)
                    continue
                stats['transitions'] += 1
                ms2 = []
                for m, x in zip(monitors, node.ms):
                    f = getattr(m, 'on_edge', None)
                    ms2.append(guarded(f, ctx, st, x, ev, c, rec, ctx) if f else x)
                ms2 = tuple(ms2)
                devs = node.devs + cost
                if merge:
                    k = fullkey(c, ms2)
                    if record_edges:
                        dst = kid.setdefault(k, len(kid))
                        edges.append((node_kid[node.nid], dst))
                    old = seen.get(k)
                    if old is not None and old <= devs:
                        continue
                    if old is not None:
                        stats['revisits'] += 1
                    else:
                        stats['states'] += 1
                    seen[k] = devs
                else:
                    stats['states'] += 1
                parents[nid_counter] = (node.nid, ev)
                if record_edges:
                    node_kid[nid_counter] = kid[k]
                frontier.append(Node(c, ms2, nid_counter, node.depth + 1, devs))
                nid_counter += 1
            if state_cap and stats['states'] >= state_cap:
                stats['capped'] = 'states'
                break
            if time_cap and time.time() - t0 > time_cap:
                stats['capped'] = 'time'
                break
    stats['wall_s'] = time.time() - t0
    if record_edges:
        ctx.edges = edges
        ctx.n_keys = len(kid)
    return stats, ctx
