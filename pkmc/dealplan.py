"""Deck plans that put chosen cards in chosen places (harness input construction, not an oracle).

The order in which an automated hand takes cards from the deck is found by a dry run with a fully listed deck on the
check-down line (nobody folds; dealing does not depend on the amounts bet), then the wanted cards are written to the deck
positions that ended up in the wanted places.  If an implementation change alters the dealing order the scenarios change, the
oracles judging them do not.
"""
from . import configs as C, env

STD = [r + s for r in '23456789TJQKA' for s in 'cdhs']
# everything up to the showdown is automated in the dry run; hands are tabled by hand so that nobody's cards are mucked
DRY_AUTOS = ['ANTE_POSTING', 'BET_COLLECTION', 'BLIND_OR_STRADDLE_POSTING', 'CARD_BURNING', 'HOLE_DEALING', 'BOARD_DEALING',
             'RUNOUT_COUNT_SELECTION']


def _check_down(st):
    guard = 0
    while st.status and guard < 500:
        guard += 1
        if st.can_post_bring_in():
            st.post_bring_in()
        elif st.can_check_or_call():
            st.check_or_call()
        elif st.can_stand_pat_or_discard():
            st.stand_pat_or_discard()
        elif st.can_select_runout_count():
            st.select_runout_count(None)
        elif st.can_show_or_muck_hole_cards():
            st.show_or_muck_hole_cards(True)
        else:
            break
    return st


def destinations(cfg, deck=STD):
    """{('hole', player): [deck positions in hand order], ('board', b): [...]} on the check-down line."""
    probe = dict(cfg, plan=list(deck), autos=DRY_AUTOS)
    env.set_warnings('ignore')
    st = _check_down(C.build(probe))
    pos = {c: k for k, c in enumerate(deck)}
    out = {}
    for i in range(st.player_count):
        out[('hole', i)] = [pos[repr(c)] for c in st.hole_cards[i] if repr(c) in pos]
    for b in range(st.board_count):
        out[('board', b)] = [pos[repr(c)] for c in st.get_board_cards(b) if repr(c) in pos]
    return out


def plan(dest, placement, deck=STD):
    """placement: {('hole', i): [card texts], ('board', b): [card texts]} -> full deck order."""
    order = [None] * len(deck)
    used = set()
    for where, cards in placement.items():
        slots = dest[where]
        if len(cards) > len(slots):
            raise ValueError(f'{where}: {len(cards)} cards for {len(slots)} slots')
        for k, c in enumerate(cards):
            if c in used:
                raise ValueError(f'{c} placed twice')
            used.add(c)
            order[slots[k]] = c
    rest = [c for c in deck if c not in used]
    for k in range(len(order)):
        if order[k] is None:
            order[k] = rest.pop(0)
    return order
