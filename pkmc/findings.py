"""Known findings: committed file, matched by signature, never written at run time."""
import json
import os

PATH = os.path.join(os.path.dirname(os.path.dirname(os.path.abspath(__file__))), 'known_findings.json')


def load():
    if not os.path.exists(PATH):
        return []
    return json.load(open(PATH)).get('findings', [])


def sig_str(sig):
    if isinstance(sig, (list, tuple)):
        return '|'.join(str(x) for x in sig)
    return str(sig)


def partition(pid, violations, entries):
    """-> (new violations, [(entry, count)]) ; only status=='open' entries suppress."""
    import re
    opens = {}
    pats = []
    for e in entries:
        if e.get('status') == 'open' and pid in e.get('properties', [e.get('property')]):
            for s in e.get('signatures', []):
                opens[s] = e
            for p in e.get('signature_patterns', []):
                pats.append((re.compile(p), e))
    new = []
    known = {}
    for v in violations:
        s = sig_str(v['sig'])
        v['sig'] = s
        e = opens.get(s)
        if e is None:
            for p, pe in pats:
                if p.fullmatch(s):
                    e = pe
                    break
        if e is not None:
            known.setdefault(e['id'], [e, 0])[1] += 1
        else:
            new.append(v)
    return new, [(e, n) for e, n in known.values()]
