"""Event menus: which operations (with which small-domain arguments) are tried
at a state.  An event is a tuple (operation name, *args) of plain literals.

``legal_menu`` is computed from the can_* queries (checks that own an
independent reference compute candidate sets themselves).  Every event carries
a *deviation cost*: 0 for the default action at that point, 1 otherwise.
"""

DEFAULT_OPTS = {
    'players': False,      # explicit player indices for ante/blind/kill/pull (any order)
    'deal': 'default',     # 'default' | 'rich' (several cards per call, explicit dealee)
    'discards': ('none',),  # subset of none/first/two/all
    'raises': 'all',       # 'all' | 'minmax' | 'min' | 'none'
    'runouts': (None, 1, 2),
    'runout_players': False,
    'show': (None,),       # values for show_or_muck_hole_cards
    'fold': True,
    'fold_unfaced': False,  # cash games: fold with nothing to call (warned)
    'probe': False,        # out-of-domain arguments become events if (and only if) the query accepts them
    'show_players': False,  # show/muck for an explicit player out of showdown order: True = default argument, or a tuple of values
    'post_hand_show': False,  # the documented non-standard showdown: a still-active player tables his hand once no street is on
}


def opts(**kw):
    o = dict(DEFAULT_OPTS)
    o.update(kw)
    return o


def card_text(cards):
    return ''.join(repr(c) for c in cards)


def legal_menu(st, o=DEFAULT_OPTS):
    ev = []
    add = ev.append
    n = st.player_count
    if st.can_post_ante():
        add((('post_ante',), 0))
        if o['players']:
            for i in range(n):
                if st.can_post_ante(i):
                    add((('post_ante', i), 1))
    if st.can_collect_bets():
        add((('collect_bets',), 0))
    if st.can_post_blind_or_straddle():
        add((('post_blind_or_straddle',), 0))
        if o['players']:
            for i in range(n):
                if st.can_post_blind_or_straddle(i):
                    add((('post_blind_or_straddle', i), 1))
    mix = o['deal'] == 'mix'
    if st.can_burn_card():
        add((('burn_card',), 0))
        if mix and st.can_burn_card('??'):
            add((('burn_card', '??'), 1))
    if st.can_deal_hole():
        add((('deal_hole',), 0))
        if o['deal'] == 'rich':
            pend = [len(x) for x in st.hole_dealing_statuses]
            for k in range(2, max(pend) + 1):
                if st.can_deal_hole(k):
                    add((('deal_hole', k), 1))
            d = st.hole_dealee_index
            for i in range(n):
                if i != d and pend[i]:
                    add((('deal_hole', 1, i), 1))
        if mix:
            if st.can_deal_hole('??'):
                add((('deal_hole', '??'), 1))
            if len(st.deck_cards) > 1:
                t = card_text([st.deck_cards[-1]])
                if st.can_deal_hole(t):
                    add((('deal_hole', t), 1))
            d = st.hole_dealee_index
            pend = len(st.hole_dealing_statuses[d]) if d is not None else 0
            if pend >= 3 and len(st.deck_cards) > pend:
                # one call dealing known and unknown cards interleaved (known ones from the far end of the deck)
                ks = list(st.deck_cards)[-pend:]
                for pat in ('UKUKU', 'KUUKU'):
                    t = ''.join('??' if pat[j % 5] == 'U' else card_text([ks[j]]) for j in range(pend))
                    if st.can_deal_hole(t):
                        add((('deal_hole', t), 1))
    if st.can_deal_board():
        add((('deal_board',), 0))
        if mix:
            c = st.board_dealing_count
            if c and len(st.deck_cards) > c:
                t = card_text(list(st.deck_cards)[-c:])
                if st.can_deal_board(t):
                    add((('deal_board', t), 1))
        if o['deal'] == 'rich':
            c = st.board_dealing_count
            if c and c > 1:
                add((('deal_board', 1), 1))
    if st.can_stand_pat_or_discard():
        i = st.stander_pat_or_discarder_index
        hc = st.hole_cards[i]
        dd = o.get('discard_default', 'none')
        for mode in o['discards']:
            cost = 0 if mode == dd else 1
            if mode == 'none':
                add((('stand_pat_or_discard',), cost))
            elif mode == 'first' and hc:
                add((('stand_pat_or_discard', card_text(hc[:1])), cost))
            elif mode == 'two' and len(hc) > 1:
                add((('stand_pat_or_discard', card_text(hc[:2])), cost))
            elif mode == 'all' and len(hc) > 2:
                add((('stand_pat_or_discard', card_text(hc)), cost))
            elif mode == 'unknowns':
                u = sum(1 for c in hc if c.unknown_status)
                for k in sorted({2, u} if u >= 2 else ()):
                    add((('stand_pat_or_discard', '??' * k), cost))
    if st.actor_indices:
        if st.can_check_or_call():
            add((('check_or_call',), 0))
        if st.can_post_bring_in():
            add((('post_bring_in',), 0))
        if o['fold']:
            a = st.actor_index
            faced = st.bets[a] < max(st.bets)
            if (faced or o['fold_unfaced']) and st.can_fold():
                add((('fold',), 1))
        if o['raises'] != 'none' and st.can_complete_bet_or_raise_to():
            lo = st.min_completion_betting_or_raising_to_amount
            hi = st.max_completion_betting_or_raising_to_amount
            if o['raises'] == 'all':
                xs = range_chips(lo, hi)
            elif o['raises'] == 'minmax':
                xs = [lo] if lo == hi else [lo, hi]
            else:
                xs = [lo]
            for x in xs:
                add((('complete_bet_or_raise_to', x), 1))
    if o.get('probe'):
        # arguments no rule allows: they are part of the explored behaviour exactly when the implementation says they are available
        for c in (0, -1):
            if _yes(st.can_select_runout_count, c):
                add((('select_runout_count', c), 1))
        if st.actor_indices:
            lo = st.min_completion_betting_or_raising_to_amount
            hi = st.max_completion_betting_or_raising_to_amount
            if lo is not None and hi is not None:
                for x in (lo - 1, hi + 1):
                    if _yes(st.can_complete_bet_or_raise_to, x):
                        add((('complete_bet_or_raise_to', x), 1))
        for k in (0, -1):
            if _yes(st.can_deal_board, k):
                add((('deal_board', k), 1))
            if _yes(st.can_deal_hole, k):
                add((('deal_hole', k), 1))
    if st.can_select_runout_count():
        for c in o['runouts']:
            add((('select_runout_count', c), 0 if c is None else 1))
        if o['runout_players']:
            for i in range(n):
                if st.runout_count_selector_statuses[i]:
                    for c in o['runouts']:
                        add((('select_runout_count', c, i), 1))
    if st.can_show_or_muck_hole_cards():
        for v in o['show']:
            if v == 'partial':
                # table only the first hole card, keep the rest face down (cash games)
                i = st.showdown_index
                hc = st.hole_cards[i] if i is not None else ()
                if len(hc) >= 2 and all(hc):
                    t = card_text(hc[:1])
                    if st.can_show_or_muck_hole_cards(t):
                        add((('show_or_muck_hole_cards', t), 1))
                continue
            if v == 'facedown':
                # keep the hand without revealing it: every card given as unknown (cash games)
                i = st.showdown_index
                hc = st.hole_cards[i] if i is not None else ()
                if hc and _yes(st.can_show_or_muck_hole_cards, '??' * len(hc)):
                    add((('show_or_muck_hole_cards', '??' * len(hc)), 1))
                continue
            add((('show_or_muck_hole_cards', v), 0 if v is None else 1))
    if o.get('show_players') and st.street is not None and len(st.showdown_indices) > 1:
        vals = o['show_players'] if isinstance(o['show_players'], (tuple, list)) else (None,)
        for j in list(st.showdown_indices)[1:]:
            for v in vals:
                if _yes(st.can_show_or_muck_hole_cards, v, j):
                    add((('show_or_muck_hole_cards', v, j), 1))
    if mix and st.showdown_indices and st.street is not None and not st.can_show_or_muck_hole_cards():
        i = st.showdown_indices[0]
        k = len(st.hole_cards[i])
        if len(st.deck_cards) >= k:
            t = card_text(list(st.deck_cards)[-k:])
            if st.can_show_or_muck_hole_cards(t):
                add((('show_or_muck_hole_cards', t), 1))
        if st.can_show_or_muck_hole_cards(False):
            add((('show_or_muck_hole_cards', False), 1))
    if o.get('post_hand_show') and st.street is None and st.operations:
        for i in range(n):
            if st.statuses[i] and st.hole_cards[i] and not all(st.hole_card_statuses[i]) and \
                    _yes(st.can_show_or_muck_hole_cards, True, i):
                add((('show_or_muck_hole_cards', True, i), 1))
    if st.can_kill_hand():
        add((('kill_hand',), 0))
        if o['players']:
            for i in range(n):
                if st.can_kill_hand(i):
                    add((('kill_hand', i), 1))
    if st.can_push_chips():
        add((('push_chips',), 0))
    if st.can_pull_chips():
        add((('pull_chips',), 0))
        if o['players']:
            for i in range(n):
                if st.can_pull_chips(i):
                    add((('pull_chips', i), 1))
    return ev


def _yes(q, *a):
    try:
        return q(*a) is True
    except Exception:
        return False


def range_chips(lo, hi):
    """All chip amounts lo..hi on the grid of the chip type (step = unit)."""
    if isinstance(lo, int) and isinstance(hi, int):
        return list(range(lo, hi + 1))
    # non-integral chip types are built as unit*k: enumerate on the unit grid
    from fractions import Fraction
    from decimal import Decimal
    if isinstance(lo, Fraction):
        unit = Fraction(1, 3)
    elif isinstance(lo, Decimal):
        unit = Decimal('0.25')
    else:
        unit = 0.25
    out = []
    x = lo
    while x <= hi:
        out.append(x)
        x = x + unit
    return out


def apply(st, ev):
    return getattr(st, ev[0])(*ev[1:])


def replay(st, events):
    for ev in events:
        apply(st, tuple(ev))
    return st
